// Package astx holds reflection helpers over the exported fields of the parser's
// syntax tree. Nothing here names a concrete node type, so it keeps working when
// node types are added or changed.
package astx

import (
	"fmt"
	"reflect"

	"github.com/runreveal/pql/parser"
)

var spanType = reflect.TypeOf(parser.Span{})
var nodeType = reflect.TypeOf((*parser.Node)(nil)).Elem()

// EqualShift compares two trees field by field; every valid span of a must equal
// the corresponding span of b moved by -shift (b = a scanned at offset shift).
// If ignoreSpans is set, spans are not compared at all.
func EqualShift(a, b any, shift int, ignoreSpans bool) (bool, string) {
	return eq(reflect.ValueOf(a), reflect.ValueOf(b), shift, ignoreSpans, "")
}

func eq(a, b reflect.Value, shift int, ign bool, path string) (bool, string) {
	if a.IsValid() != b.IsValid() {
		return false, path + ": one side missing"
	}
	if !a.IsValid() {
		return true, ""
	}
	if a.Type() != b.Type() {
		return false, fmt.Sprintf("%s: type %v vs %v", path, a.Type(), b.Type())
	}
	switch a.Kind() {
	case reflect.Interface, reflect.Ptr:
		if a.IsNil() != b.IsNil() {
			return false, fmt.Sprintf("%s: nil vs non-nil (%v)", path, a.Type())
		}
		if a.IsNil() {
			return true, ""
		}
		return eq(a.Elem(), b.Elem(), shift, ign, path)
	case reflect.Struct:
		if a.Type() == spanType {
			if ign {
				return true, ""
			}
			sa := a.Interface().(parser.Span)
			sb := b.Interface().(parser.Span)
			if !sa.IsValid() && !sb.IsValid() {
				return true, ""
			}
			if sa.Start-shift != sb.Start || sa.End-shift != sb.End {
				return false, fmt.Sprintf("%s: span %v vs %v (shift %d)", path, sa, sb, shift)
			}
			return true, ""
		}
		for i := 0; i < a.NumField(); i++ {
			f := a.Type().Field(i)
			if !f.IsExported() {
				continue
			}
			if ok, p := eq(a.Field(i), b.Field(i), shift, ign, path+"."+f.Name); !ok {
				return false, p
			}
		}
		return true, ""
	case reflect.Slice:
		if a.Len() != b.Len() {
			return false, fmt.Sprintf("%s: length %d vs %d", path, a.Len(), b.Len())
		}
		for i := 0; i < a.Len(); i++ {
			if ok, p := eq(a.Index(i), b.Index(i), shift, ign, fmt.Sprintf("%s[%d]", path, i)); !ok {
				return false, p
			}
		}
		return true, ""
	default:
		if a.Interface() != b.Interface() {
			return false, fmt.Sprintf("%s: %v vs %v", path, a.Interface(), b.Interface())
		}
		return true, ""
	}
}

// Describe renders a tree compactly (types, scalar fields, spans) for messages.
func Describe(x any) string {
	return desc(reflect.ValueOf(x))
}

// DescribeNoSpans is Describe with every span omitted.
func DescribeNoSpans(x any) string {
	noSpans = true
	defer func() { noSpans = false }()
	return desc(reflect.ValueOf(x))
}

var noSpans bool

func desc(v reflect.Value) string {
	if !v.IsValid() {
		return "<invalid>"
	}
	switch v.Kind() {
	case reflect.Interface, reflect.Ptr:
		if v.IsNil() {
			return "nil"
		}
		return desc(v.Elem())
	case reflect.Struct:
		if v.Type() == spanType {
			s := v.Interface().(parser.Span)
			if noSpans {
				return ""
			}
			if !s.IsValid() {
				return "-"
			}
			return s.String()
		}
		out := v.Type().Name() + "{"
		for i := 0; i < v.NumField(); i++ {
			f := v.Type().Field(i)
			if !f.IsExported() {
				continue
			}
			if i > 0 {
				out += " "
			}
			out += f.Name + ":" + desc(v.Field(i))
		}
		return out + "}"
	case reflect.Slice:
		out := "["
		for i := 0; i < v.Len(); i++ {
			if i > 0 {
				out += " "
			}
			out += desc(v.Index(i))
		}
		return out + "]"
	case reflect.String:
		return fmt.Sprintf("%q", v.String())
	default:
		if v.Type().Name() == "TokenKind" {
			return fmt.Sprint(v.Interface())
		}
		return fmt.Sprint(v.Interface())
	}
}

// Children returns the direct child nodes of n in field order: every exported
// field (or slice element) that holds a non-nil value implementing parser.Node.
// skip(typeName, fieldName) excludes fields (the documented Walk exceptions).
func Children(n parser.Node, skip func(typ, field string) bool) []parser.Node {
	v := reflect.ValueOf(n)
	for v.Kind() == reflect.Ptr || v.Kind() == reflect.Interface {
		if v.IsNil() {
			return nil
		}
		v = v.Elem()
	}
	if v.Kind() != reflect.Struct {
		return nil
	}
	var out []parser.Node
	add := func(f reflect.Value) {
		for f.Kind() == reflect.Interface {
			if f.IsNil() {
				return
			}
			f = f.Elem()
		}
		if f.Kind() == reflect.Ptr {
			if f.IsNil() {
				return
			}
			if f.Type().Implements(nodeType) {
				out = append(out, f.Interface().(parser.Node))
			}
		}
	}
	for i := 0; i < v.NumField(); i++ {
		sf := v.Type().Field(i)
		if !sf.IsExported() || (skip != nil && skip(v.Type().Name(), sf.Name)) {
			continue
		}
		f := v.Field(i)
		if f.Kind() == reflect.Slice {
			for k := 0; k < f.Len(); k++ {
				add(f.Index(k))
			}
			continue
		}
		add(f)
	}
	return out
}

// IsNilNode reports whether n is nil or a typed nil pointer.
func IsNilNode(n parser.Node) bool {
	if n == nil {
		return true
	}
	v := reflect.ValueOf(n)
	return v.Kind() == reflect.Ptr && v.IsNil()
}

// Pairs walks two structurally equal trees in parallel and calls fn for every
// pair of corresponding nodes.
func Pairs(a, b parser.Node, fn func(a, b parser.Node)) {
	if IsNilNode(a) || IsNilNode(b) {
		return
	}
	fn(a, b)
	ca, cb := Children(a, nil), Children(b, nil)
	for i := 0; i < len(ca) && i < len(cb); i++ {
		Pairs(ca[i], cb[i], fn)
	}
}

// Spans collects every span stored in exported fields anywhere below x.
func Spans(x any, fn func(path string, s parser.Span)) {
	spans(reflect.ValueOf(x), "", fn, 0)
}

func spans(v reflect.Value, path string, fn func(string, parser.Span), depth int) {
	if !v.IsValid() || depth > 100000 {
		return
	}
	switch v.Kind() {
	case reflect.Interface, reflect.Ptr:
		if !v.IsNil() {
			spans(v.Elem(), path, fn, depth+1)
		}
	case reflect.Struct:
		if v.Type() == spanType {
			fn(path, v.Interface().(parser.Span))
			return
		}
		for i := 0; i < v.NumField(); i++ {
			if v.Type().Field(i).IsExported() {
				spans(v.Field(i), path+"."+v.Type().Field(i).Name, fn, depth+1)
			}
		}
	case reflect.Slice:
		for i := 0; i < v.Len(); i++ {
			spans(v.Index(i), path, fn, depth+1)
		}
	}
}

// TypeName returns the bare type name of a node.
func TypeName(n any) string {
	t := reflect.TypeOf(n)
	for t != nil && t.Kind() == reflect.Ptr {
		t = t.Elem()
	}
	if t == nil {
		return "nil"
	}
	return t.Name()
}
