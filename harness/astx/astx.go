// Package astx holds reflection helpers over the exported fields of the parser's
// syntax tree. Nothing here names a concrete node type, so it keeps working when
// node types are added or changed.
package astx

import (
	"fmt"
	"reflect"

	"github.com/runreveal/pql/parser"
)

var spanType = reflect.TypeOf(parser.Span{})
var nodeType = reflect.TypeOf((*parser.Node)(nil)).Elem()

// EqualShift compares two trees field by field; every valid span of a must equal
// the corresponding span of b moved by -shift (b = a scanned at offset shift).
// If ignoreSpans is set, spans are not compared at all.
func EqualShift(a, b any, shift int, ignoreSpans bool) (bool, string) {
	return eq(reflect.ValueOf(a), reflect.ValueOf(b), shift, ignoreSpans, "")
}

func eq(a, b reflect.Value, shift int, ign bool, path string) (bool, string) {
	if a.IsValid() != b.IsValid() {
		return false, path + ": one side missing"
	}
	if !a.IsValid() {
		return true, ""
	}
	if a.Type() != b.Type() {
		return false, fmt.Sprintf("%s: type %v vs %v", path, a.Type(), b.Type())
	}
	switch a.Kind() {
	case reflect.Interface, reflect.Ptr:
		if a.IsNil() != b.IsNil() {
			return false, fmt.Sprintf("%s: nil vs non-nil (%v)", path, a.Type())
		}
		if a.IsNil() {
			return true, ""
		}
		return eq(a.Elem(), b.Elem(), shift, ign, path)
	case reflect.Struct:
		if a.Type() == spanType {
			if ign {
				return true, ""
			}
			sa := a.Interface().(parser.Span)
			sb := b.Interface().(parser.Span)
			if !sa.IsValid() && !sb.IsValid() {
				return true, ""
			}
			if sa.Start-shift != sb.Start || sa.End-shift != sb.End {
				return false, fmt.Sprintf("%s: span %v vs %v (shift %d)", path, sa, sb, shift)
			}
			return true, ""
		}
		for i := 0; i < a.NumField(); i++ {
			f := a.Type().Field(i)
			if !f.IsExported() {
				continue
			}
			if ok, p := eq(a.Field(i), b.Field(i), shift, ign, path+"."+f.Name); !ok {
				return false, p
			}
		}
		return true, ""
	case reflect.Slice:
		if a.Len() != b.Len() {
			return false, fmt.Sprintf("%s: length %d vs %d", path, a.Len(), b.Len())
		}
		for i := 0; i < a.Len(); i++ {
			if ok, p := eq(a.Index(i), b.Index(i), shift, ign, fmt.Sprintf("%s[%d]", path, i)); !ok {
				return false, p
			}
		}
		return true, ""
	default:
		if a.Interface() != b.Interface() {
			return false, fmt.Sprintf("%s: %v vs %v", path, a.Interface(), b.Interface())
		}
		return true, ""
	}
}

// Describe renders a tree compactly (types, scalar fields, spans) for messages.
func Describe(x any) string {
	return desc(reflect.ValueOf(x))
}

func desc(v reflect.Value) string {
	if !v.IsValid() {
		return "<invalid>"
	}
	switch v.Kind() {
	case reflect.Interface, reflect.Ptr:
		if v.IsNil() {
			return "nil"
		}
		return desc(v.Elem())
	case reflect.Struct:
		if v.Type() == spanType {
			s := v.Interface().(parser.Span)
			if !s.IsValid() {
				return "-"
			}
			return s.String()
		}
		out := v.Type().Name() + "{"
		for i := 0; i < v.NumField(); i++ {
			f := v.Type().Field(i)
			if !f.IsExported() {
				continue
			}
			if i > 0 {
				out += " "
			}
			out += f.Name + ":" + desc(v.Field(i))
		}
		return out + "}"
	case reflect.Slice:
		out := "["
		for i := 0; i < v.Len(); i++ {
			if i > 0 {
				out += " "
			}
			out += desc(v.Index(i))
		}
		return out + "]"
	case reflect.String:
		return fmt.Sprintf("%q", v.String())
	default:
		if v.Type().Name() == "TokenKind" {
			return fmt.Sprint(v.Interface())
		}
		return fmt.Sprint(v.Interface())
	}
}
