//go:build verif

// Command c14drv is the interleaving explorer for property C14. It is built by
// `chk C14` together with the instrumented copy of pql (build overlay) and runs
// every scenario exhaustively up to a preemption bound.
package main

import (
	"encoding/json"
	"fmt"
	"os"
	"os/exec"
	"path/filepath"
	"reflect"
	"sort"
	"strings"
	"sync"
	"time"

	"github.com/runreveal/pql"
	"github.com/runreveal/pql/parser"
	rt "github.com/runreveal/pql/verifrt"
	"verif/harness/gen"
	"verif/harness/run"
)

// call is one library call of a scenario.
type call struct {
	Kind string // compile | parse | scan | split
	Src  string
	Opt  int // index into optionValues (-1 = plain pql.Compile)
}

type scenario struct {
	Name    string
	Threads [][]call
	// SharedOpt: all calls with Opt == sharedOptIndex use one shared *CompileOptions value
	Note string
}

func mkOptions() []*pql.CompileOptions {
	return []*pql.CompileOptions{
		nil,
		{},
		{Parameters: map[string]string{}},
		{Parameters: map[string]string{"p": "{p:Int32}"}},
		{Parameters: map[string]string{"p": "$1", "n": "$2"}},
		{Parameters: map[string]string{"window_ms": "$1", "window_ns": "$2", "window_ds": "$3", "alpha4": "$4", "alpha5": "$5", "alphaY": "$6"}},
	}
}

// s5Source: the quick tier uses a source with few look-ups of the function table so that the
// unbounded exploration of three threads completes; the thorough tier uses the longer one.
var s5Source = "T | where not(b)"

func scenarios() []scenario {
	c := func(src string, opt int) call { return call{"compile", src, opt} }
	return []scenario{
		{Name: "S1-cold-start-3-compiles", Threads: [][]call{
			{c("T | where not(a) and isnull(b)", -1)},
			{c("T | project s = strcat(a, b), i = iff(a > 1, b, c), n = now()", -1)},
			{c("T | join kind=bogus (R) on k", -1)},
		}},
		{Name: "S2-shared-options-lets", Threads: [][]call{
			{c("let p = 5; T | where a == p", 3), c("T | where a == p", 3)},
			{c("T | where tolower(a) == p | take 2", 3), c("let p = 'x'; let q = p; T | extend z = q", 3)},
		}},
		{Name: "S3-parse-scan-split", Threads: [][]call{
			{{"parse", "T | join kind=inner (R) on k | where a in (1, 2) and b or c", -1}},
			{{"scan", "a and b or c in by 0x1f 'x' // c", -1}, {"parse", "T | join kind=nope (R) on k", -1}},
			{{"split", "let x = 1; T | take x; 'a;b'", -1}, {"scan", "let by = 1.5e3", -1}},
		}},
		{Name: "S4-mixed", Threads: [][]call{
			{c("T | summarize n = count(), m = countif(a > 1) by b | top 3 by n", -1)},
			{{"parse", "T | where toupper(a) == 'X' | render chart with (title='t')", -1}},
			{c("let n = 3; T | where a == p | take n", 4)},
		}},
		{Name: "S5-same-source-first-use", Threads: [][]call{
			{c(s5Source, -1)},
			{c(s5Source, 1)},
			{c(s5Source, 2)},
		}},
		{Name: "S7-long-pipelines-first-use", Threads: [][]call{
			{c("T | project a, b | project b, a | summarize n = count() by a | project n | extend m = n + 1 | project m | project l = m | project k = l | project j = k | project i = j | where i | project h = i | count", -1)},
			{c("T | where a | project a | project b = a | project c = b | project d = c | project e = d | as Q | join (R | project k | project j = k | project i = j) on i", -1)},
		}},
		{Name: "S8-lets-with-empty-parameter-map", Threads: [][]call{
			{c("let n = 10; T | take n", 2), c("T | where n > 3 | project n", 2)},
			{c("let n = 7; let m = n; T | where a == m", 2)},
		}},
		{Name: "S9-scan-parse-results-retained", Threads: [][]call{
			{{"scan", "a b c", -1}, {"scan", "T | where aa == 1 and bb == 2 and cc == 3 and dd == 4 | project aa, bb, cc, dd, ee, ff | take 5", -1}, {"scan", "x", -1}},
			{{"parse", "T | where a | project b", -1}, {"scan", "Other | where zz1 == zz2 or zz3 == zz4 or zz5 == zz6 or zz7 == zz8 or zz9 == zz10 | count | count | count", -1}, {"parse", "U", -1}},
		}},
		{Name: "S10-joins-and-walks", Threads: [][]call{
			{c("L | where x > 1 | join kind=inner (R | where y > 0) on k, $left.x < $right.y | project x, y", -1)},
			{c("A | join (B | join kind=leftouter (C) on $left.b == $right.c) on $left.a == $right.b | count", -1)},
			{{"walk", "T | where a > 1 and b in (1, 2) | join (R | project k, y) on k | project a, s = strcat(b, 'x') | top 3 by a", -1}},
		}},
		{Name: "S11-long-pipeline-two-faults", Threads: [][]call{
			{c("T | where a > 1 | project a, b | where not() | extend c = a + 1 | sort by a | summarize a = max(a), b = max(b) by c | project a, b, c | where a > 1 | project a, b | extend c = a + 1 | sort by a | project a, c | where isnull(a, c) | project a | count", -1)},
			{c("T | where not(a)", -1)},
		}},
		{Name: "S12-string-literals-that-need-escaping", Threads: [][]call{
			{c(`T | where a == 'x\'y' and b == "p\\q"`, -1), c("T | where a == \"it's\"", -1)},
			{c(`T | extend d = 'back\\slash', e = "o'clock" | where c == "dq\"x"`, -1)},
		}},
		{Name: "S6-two-threads-two-calls", Threads: [][]call{
			{c("T | where isnotnull(a)", -1), c("T | where isnotnull(a)", -1)},
			{c("T | extend x = tolower(s)", -1), {"parse", "T | count", -1}},
		}},
	}
}

type result struct {
	Out string
	Err string
}

// live keeps the objects a call returned, so that they can be rendered again
// later: a result must not change because of calls made after it returned.
type live struct {
	call   call
	tokens []parser.Token
	stmts  []parser.Statement
	first  string
}

var liveMu sync.Mutex
var lives []*live

func keepLive(l *live) {
	liveMu.Lock()
	lives = append(lives, l)
	liveMu.Unlock()
}

// recheckLive renders every kept result again and reports the first that changed.
func recheckLive() (changed *live, now string) {
	liveMu.Lock()
	defer liveMu.Unlock()
	defer func() { lives = nil }()
	for _, l := range lives {
		var cur string
		if l.tokens != nil {
			cur = fmt.Sprintf("%v", l.tokens)
		} else {
			cur = fmt.Sprintf("%d:%s", len(l.stmts), describe(l.stmts))
		}
		if cur != l.first {
			return l, cur
		}
	}
	return nil, ""
}

// seqWrap: the code under test starts goroutines (rewritten into controlled threads): a call made outside an
// exploration then runs as a one-thread execution of the scheduler (default schedule), so that those threads exist.
var seqWrap = os.Getenv("VERIF_C14_REWRITTEN") != ""
var seqEver = map[string]bool{}

func doCall(c call, opts []*pql.CompileOptions) result {
	if seqWrap && !rt.Active() {
		var res result
		ex, err := rt.Run([]func(){func() { res = doCallRaw(c, opts) }}, nil, nil, seqEver, 200000)
		if err != nil {
			panic(err)
		}
		if len(ex.Panics) > 0 {
			panic(ex.Panics[0])
		}
		if ex.Deadlock {
			return result{Err: "deadlock: the call does not return under the default schedule"}
		}
		return res
	}
	return doCallRaw(c, opts)
}

func doCallRaw(c call, opts []*pql.CompileOptions) result {
	switch c.Kind {
	case "compile":
		var sql string
		var err error
		if c.Opt < 0 {
			sql, err = pql.Compile(c.Src)
		} else {
			sql, err = opts[c.Opt].Compile(c.Src)
		}
		r := result{Out: sql}
		if err != nil {
			r.Err = err.Error()
		}
		return r
	case "parse":
		st, err := parser.Parse(c.Src)
		r := result{Out: fmt.Sprintf("%d:%s", len(st), describe(st))}
		keepLive(&live{call: c, stmts: st, first: r.Out})
		if err != nil {
			r.Err = err.Error()
		}
		return r
	case "scan":
		toks := parser.Scan(c.Src)
		r := result{Out: fmt.Sprintf("%v", toks)}
		if toks != nil {
			keepLive(&live{call: c, tokens: toks, first: r.Out})
		}
		return r
	case "split":
		return result{Out: fmt.Sprintf("%q", parser.SplitStatements(c.Src))}
	case "walk":
		st, err := parser.Parse(c.Src)
		var sb strings.Builder
		for _, s := range st {
			parser.Walk(s, func(n parser.Node) bool {
				fmt.Fprintf(&sb, "%T%v ", n, n.Span())
				// a visitor may itself walk a subtree (and then prune it)
				if j, ok := n.(*parser.JoinOperator); ok && j.Right != nil {
					parser.Walk(j.Right, func(m parser.Node) bool { fmt.Fprintf(&sb, "<%T%v> ", m, m.Span()); return true })
					return false
				}
				return true
			})
		}
		r := result{Out: sb.String()}
		if err != nil {
			r.Err = err.Error()
		}
		return r
	}
	panic("unknown call kind")
}

// sameParams compares what the caller can see of an options value: nil-ness and the Parameters map
// (an implementation may keep private state in the value; what it must not do is change the caller's map).
func sameParams(a, b *pql.CompileOptions) bool {
	if (a == nil) != (b == nil) {
		return false
	}
	if a == nil {
		return true
	}
	if (a.Parameters == nil) != (b.Parameters == nil) {
		return false
	}
	return reflect.DeepEqual(a.Parameters, b.Parameters)
}

func sameOptions(a, b []*pql.CompileOptions) bool {
	if len(a) != len(b) {
		return false
	}
	for i := range a {
		if !sameParams(a[i], b[i]) {
			return false
		}
	}
	return true
}

// doCallSafe turns a panic of the library into a result.
func doCallSafe(c call, opts []*pql.CompileOptions) (res result) {
	defer func() {
		if p := recover(); p != nil {
			res = result{Err: fmt.Sprintf("panic: %v", p)}
		}
	}()
	return doCall(c, opts)
}

func describe(st []parser.Statement) string {
	b, _ := json.Marshal(st)
	return string(b)
}

// sequentialResults: each call made first in a fresh state.
func sequentialResults(sc scenario) [][]result {
	out := make([][]result, len(sc.Threads))
	for ti, th := range sc.Threads {
		for _, c := range th {
			rt.Restore()
			out[ti] = append(out[ti], doCall(c, mkOptions()))
		}
	}
	return out
}

type explorer struct {
	w        *run.Worker
	sc       scenario
	expected [][]result
	ever     map[string]bool
	grew     bool
	execs    int64
	nodes    int64
	decis    int64
	maxPre   int
	outcomes map[string]bool
	deadline time.Time
	capped   bool
	failed   bool
	// seen: state key -> fewest preemptions with which the state has been expanded (state-key pruning)
	seen        map[uint64]int
	pruned      int64
	devDeadline time.Time
	devCapped   bool
	devDone     int
	// unsupported: the execution met a construct the scheduler cannot own (e.g. an unbuffered channel)
	unsupported string
}

type obs struct {
	results [][]result
	opts    []*pql.CompileOptions
}

func (e *explorer) runOnce(prefix []int) (*rt.Execution, *obs, error) {
	rt.Restore()
	recheckLive() // drop objects kept by earlier executions
	opts := mkOptions()
	o := &obs{opts: opts, results: make([][]result, len(e.sc.Threads))}
	bodies := make([]func(), len(e.sc.Threads))
	for ti := range e.sc.Threads {
		ti := ti
		o.results[ti] = make([]result, 0, len(e.sc.Threads[ti]))
		bodies[ti] = func() {
			for _, c := range e.sc.Threads[ti] {
				o.results[ti] = append(o.results[ti], doCall(c, opts))
			}
		}
	}
	shared := map[string]any{}
	for i, op := range opts {
		if op != nil && op.Parameters != nil {
			shared[fmt.Sprintf("options[%d].Parameters", i)] = op.Parameters
		}
	}
	ex, err := rt.Run(bodies, prefix, shared, e.ever, 5000)
	return ex, o, err
}

func scheduleString(ex *rt.Execution) string {
	var sb strings.Builder
	for _, p := range ex.Points {
		fmt.Fprintf(&sb, "%d", p.Enabled[p.Chosen])
	}
	return sb.String()
}

func choices(ex *rt.Execution) []int {
	out := make([]int, len(ex.Points))
	for i, p := range ex.Points {
		out[i] = p.Chosen
	}
	return out
}

func (e *explorer) check(ex *rt.Execution, o *obs, prefix []int, err error) {
	src := e.sc.Name
	var ever []string
	for k := range e.ever {
		ever = append(ever, k)
	}
	sort.Strings(ever)
	extra := map[string]any{"scenario": e.sc.Name, "schedule": choices(ex), "threads_schedule": scheduleString(ex), "ever_written": ever, "s5_source": s5Source}
	fail := func(sig, detail string) {
		e.failed = true
		e.w.Fail(sig, src, detail+"\nschedule (thread ids in order of scheduling points): "+scheduleString(ex), extra)
	}
	if err != nil {
		fail("harness:replay-diverged", err.Error())
		return
	}
	if ex.Deadlock {
		fail("deadlock", "no thread enabled although some have not finished")
		return
	}
	for _, p := range ex.Panics {
		if u, ok := p.(rt.Unsupported); ok {
			e.capped = true
			e.unsupported = u.What
			return
		}
	}
	if len(ex.Panics) > 0 {
		fail("panic-in-thread", fmt.Sprintf("%v", ex.Panics[0]))
		return
	}
	if ex.Overflow {
		fail("harness:too-many-points", "execution exceeded the scheduling point limit")
		return
	}
	for _, r := range ex.Races {
		fail("data-race:"+r.A.Obj, fmt.Sprintf("threads %d and %d are both enabled with conflicting accesses: %+v vs %+v (step %d)", r.TA, r.TB, r.A, r.B, r.Step))
		return
	}
	for ti := range e.expected {
		for ci := range e.expected[ti] {
			if ci >= len(o.results[ti]) {
				fail("call-missing", fmt.Sprintf("thread %d call %d did not complete", ti, ci))
				return
			}
			if o.results[ti][ci] != e.expected[ti][ci] {
				c := e.sc.Threads[ti][ci]
				fail("result-depends-on-schedule:"+c.Kind, fmt.Sprintf("thread %d call %d (%s %q): got %+v, sequential result %+v", ti, ci, c.Kind, c.Src, o.results[ti][ci], e.expected[ti][ci]))
				return
			}
		}
	}
	if l, now := recheckLive(); l != nil {
		fail("result-changed-after-return:"+l.call.Kind, fmt.Sprintf("the value returned by %s %q changed after later calls: first %.200s, now %.200s", l.call.Kind, l.call.Src, l.first, now))
		return
	}
	pristine := mkOptions()
	for i := range pristine {
		if !sameParams(pristine[i], o.opts[i]) {
			fail("parameter-map-modified", fmt.Sprintf("options value #%d changed: %+v, was %+v", i, o.opts[i], pristine[i]))
			return
		}
	}
	e.outcomes[fmt.Sprintf("%v", o.results)] = true
}

// exploreDev explores every schedule that departs from the default choice (the running thread, else the lowest
// id) at no more than dev points: with many threads this reaches "thread k runs first" after one departure, which
// the depth-first preemption-bounded search below reaches only after exhausting the subtrees before it.
func (e *explorer) exploreDev(prefix []int, dev int) {
	if e.failed || e.grew {
		return
	}
	if time.Now().After(e.devDeadline) {
		e.devCapped = true
		return
	}
	e.w.Begin("interleavings:"+e.sc.Name, e.sc.Name)
	ex, o, err := e.runOnce(prefix)
	e.execs++
	e.decis += int64(len(ex.Points))
	e.nodes += int64(len(ex.Points) - len(prefix))
	for w := range ex.Written {
		if !e.ever[w] {
			e.ever[w] = true
			e.grew = true
		}
	}
	e.check(ex, o, prefix, err)
	if e.failed || e.grew || dev == 0 {
		return
	}
	ch := choices(ex)
	for i := len(prefix); i < len(ex.Points); i++ {
		for alt := 1; alt < len(ex.Points[i].Enabled); alt++ {
			e.exploreDev(append(append([]int{}, ch[:i]...), alt), dev-1)
			if e.failed || e.grew {
				return
			}
		}
	}
}

func (e *explorer) explore(prefix []int, bound int) {
	if e.failed || e.grew {
		return
	}
	if time.Now().After(e.deadline) {
		e.capped = true
		return
	}
	e.w.Begin("interleavings:"+e.sc.Name, e.sc.Name)
	ex, o, err := e.runOnce(prefix)
	e.execs++
	e.decis += int64(len(ex.Points))
	e.nodes += int64(len(ex.Points) - len(prefix))
	for w := range ex.Written {
		if !e.ever[w] {
			e.ever[w] = true
			e.grew = true
		}
	}
	e.check(ex, o, prefix, err)
	for _, p := range ex.Points {
		if len(p.Enabled) > 1 {
			e.w.Nontrivial()
			break
		}
	}
	if e.failed || e.grew {
		return
	}
	ch := choices(ex)
	pre := 0
	for i := 0; i < len(ex.Points); i++ {
		p := ex.Points[i]
		if i >= len(prefix) {
			// state-key pruning: an equal state already expanded with at most as many preemptions has the same futures
			if best, ok := e.seen[p.Key]; ok && best <= pre {
				e.pruned++
				return
			}
			e.seen[p.Key] = pre
			for alt := 1; alt < len(p.Enabled); alt++ {
				cost := pre
				if p.RunningEnabled {
					cost++
				}
				if cost > bound {
					continue
				}
				if cost > e.maxPre {
					e.maxPre = cost
				}
				np := append(append([]int{}, ch[:i]...), alt)
				e.explore(np, bound)
				if e.failed || e.grew {
					return
				}
			}
		}
		if p.RunningEnabled && p.Chosen != 0 {
			pre++
		}
	}
}

func main() {
	if len(os.Args) >= 4 && os.Args[1] == "-fresh" {
		setTier(os.Args[3])
		freshMain(os.Args[2])
		return
	}
	tier := "quick"
	if len(os.Args) > 1 {
		tier = os.Args[1]
	}
	if tier == "--replay" {
		// a replay file names its tier: the scenarios of the two tiers differ
		if len(os.Args) >= 3 {
			setTier(replayTier(os.Args[2]))
		}
	} else {
		setTier(tier)
	}
	rt.Snapshot()
	if tier == "--replay" {
		if len(os.Args) < 3 {
			os.Exit(2)
		}
		os.Exit(replayMain(os.Args[2]))
	}
	r := run.New("C14", tier, "model_checking")
	r.MC = true
	r.ReplayFn = func(v *run.Viol) (bool, string) {
		_, hasSched := v.Extra["schedule"]
		_, hasCalls := v.Extra["calls"]
		_, hasPair := v.Extra["pair"]
		if !hasSched && !hasCalls && !hasPair {
			return true, ""
		}
		// a reported schedule must fail identically twice
		for i := 0; i < 2; i++ {
			got := run.Probe("C14", func(w *run.Worker) { replayViol(w, v) })
			hit := false
			for _, g := range got {
				if g.Sig == v.Sig {
					hit = true
				}
			}
			if !hit {
				return false, fmt.Sprintf("replay %d of the schedule did not reproduce %s", i+1, v.Sig)
			}
		}
		return true, ""
	}
	r.Rule = "stateless model checking of the real pql code under a controlled cooperative scheduler: 11 scenarios of 2-3 threads x 1-3 calls (cold start of the lazily built function table, shared options value with let statements, Parse/Scan/SplitStatements, mixed) are explored exhaustively over all interleavings of scheduling points " +
		"(every access to a package-level variable that is ever written, every access to a shared map that is ever written, every sync/atomic operation) up to a preemption bound, plus all sequential call histories up to depth 3; oracle: each call returns exactly what it returns when made first in a fresh state, " +
		"no co-enabled conflicting accesses (data race), no deadlock, parameter maps unchanged. states = nodes of the schedule tree, transitions = scheduling decisions executed, traces validated = complete executions of the real code"
	r.Assume = []string{"sequentially consistent interleavings at instrumented points; reads of objects that no execution ever writes commute and are not scheduling points (iterated to a fixpoint)",
		"instrumentation is generated from the tree at check time (package-level variables, map accesses, sync and sync/atomic operations)"}
	// the last bound (1000) is effectively unbounded: with state-key pruning it completes
	bounds := []int{0, 1, 2, 1000}
	budget := 100 * time.Second
	if tier == "thorough" {
		bounds = []int{0, 1, 2, 3, 4, 1000}
		budget = 20 * time.Minute
	}
	info := map[string]any{}
	r.Serial(func(w *run.Worker) {
		scs := scenarios()
		if n := os.Getenv("VERIF_C14_UNCONTROLLED"); n != "" {
			// goroutines started by the library itself run outside the cooperative scheduler: the interleaving explorer
			// cannot own their scheduling, so it does not run; the call histories and the free-running pass still do
			r.Cap("interleaving explorer not run: the code under test contains " + n + " go statements / channel operations that the scheduler does not control")
			scs = nil
		}
		// the largest scenario last; every scenario may use an equal share of what is left
		sort.SliceStable(scs, func(i, j int) bool {
			return scs[i].Name == "S5-same-source-first-use" && false || (scs[j].Name == "S5-same-source-first-use" && scs[i].Name != scs[j].Name)
		})
		end := time.Now().Add(budget)
		for si, sc := range scs {
			w.Begin("interleavings:"+sc.Name, sc.Name)
			w.Nontrivial()
			per := time.Until(end) / time.Duration(len(scs)-si)
			e := &explorer{w: w, sc: sc, ever: map[string]bool{}, outcomes: map[string]bool{}, deadline: time.Now().Add(per)}
			e.expected = sequentialResults(sc)
			completed := -1
			restarts := 0
			// departures from the default schedule first (at most a third of the scenario's time)
			maxDev := 1
			if tier == "thorough" {
				maxDev = 2
			}
			e.devDeadline = time.Now().Add(per / 3)
			for d := 1; d <= maxDev && !e.failed && !e.devCapped; d++ {
				e.grew = false
				e.exploreDev(nil, d)
				if e.grew {
					d-- // new written objects: more scheduling points exist; repeat this bound
					continue
				}
				if !e.devCapped && !e.failed {
					e.devDone = d
				}
			}
			for bi := 0; bi < len(bounds) && !e.failed; bi++ {
				e.grew = false
				e.seen = map[uint64]int{}
				e.explore(nil, bounds[bi])
				if e.failed {
					break
				}
				if e.grew {
					// new written objects: more scheduling points exist; start over
					restarts++
					bi = -1
					continue
				}
				if e.capped {
					break
				}
				completed = bounds[bi]
			}
			w.Count("states", e.nodes)
			w.Count("transitions", e.decis)
			w.Count("traces_validated", e.execs)
			var ever []string
			for k := range e.ever {
				ever = append(ever, k)
			}
			sort.Strings(ever)
			info[sc.Name] = map[string]any{"executions": e.execs, "preemption_bound_completed": completed, "max_preemptions_explored": e.maxPre,
				"departures_from_default_completed": e.devDone, "distinct_outcomes": len(e.outcomes), "states_pruned_by_key": e.pruned, "distinct_state_keys_last_bound": len(e.seen), "written_objects": ever, "restarts_for_new_written_objects": restarts, "time_capped": e.capped}
			if e.unsupported != "" {
				r.Cap(fmt.Sprintf("%s: not explored: %s (outside what the scheduler controls)", sc.Name, e.unsupported))
			} else if e.capped {
				r.Cap(fmt.Sprintf("%s: time budget reached after completing preemption bound %d", sc.Name, completed))
			}
			// conformance of the in-process reset: thread-order schedule in a fresh process
			if !e.failed {
				freshCheck(w, sc, e.expected)
			}
		}
		histories(w, r, tier)
		pairHistories(w, r, tier)
	})
	r.Extra["scenarios"] = info
	r.Extra["registered_globals"] = rt.GlobalNames()
	r.Extra["free_running_race_pass_fresh_processes"] = os.Getenv("VERIF_C14_RACE_RUNS")
	r.Sample(map[string]any{"scenario": "S1-cold-start-3-compiles", "threads": scenarios()[0].Threads})
	r.Sample(map[string]any{"scenario": "S2-shared-options-lets", "threads": scenarios()[1].Threads})
	os.Exit(r.Finish())
}

var currentTier = "quick"

// setTier selects the tier-dependent parts of the scenarios; the fresh-process helper must see the same ones.
func setTier(tier string) {
	currentTier = tier
	if tier == "thorough" {
		s5Source = "T | where f(a) > 1 and not(b)"
	}
}

// freshMain runs the calls of a scenario thread by thread in this (fresh) process and prints the results.
func freshMain(name string) {
	for _, sc := range scenarios() {
		if sc.Name != name {
			continue
		}
		opts := mkOptions()
		var out [][]result
		for _, th := range sc.Threads {
			var rs []result
			for _, c := range th {
				rs = append(rs, doCall(c, opts))
			}
			out = append(out, rs)
		}
		b, _ := json.Marshal(out)
		os.Stdout.Write(b)
		return
	}
	os.Exit(3)
}

// freshCheck compares the in-process "thread 1, then 2, then 3" execution (after Restore) with a genuinely fresh process.
func freshCheck(w *run.Worker, sc scenario, expected [][]result) {
	rt.Restore()
	opts := mkOptions()
	var inproc [][]result
	for _, th := range sc.Threads {
		var rs []result
		for _, c := range th {
			rs = append(rs, doCall(c, opts))
		}
		inproc = append(inproc, rs)
	}
	for round := 0; round < 2; round++ {
		out, err := exec.Command(os.Args[0], "-fresh", sc.Name, currentTier).Output()
		if err != nil {
			w.Fail("harness:fresh-process", sc.Name, err.Error(), nil)
			return
		}
		var fresh [][]result
		if err := json.Unmarshal(out, &fresh); err != nil {
			w.Fail("harness:fresh-process", sc.Name, err.Error(), nil)
			return
		}
		w.Count("traces_validated", 1)
		if !reflect.DeepEqual(fresh, inproc) {
			w.Fail("result-depends-on-process-history", sc.Name, fmt.Sprintf("calls run in a fresh process give %v, the same calls after restoring package state in this process give %v", fresh, inproc), map[string]any{"scenario": sc.Name})
			return
		}
	}
}

// histories: all sequences of <= 3 calls over 8 (source, options) pairs.
func histories(w *run.Worker, r *run.Runner, tier string) {
	type hc struct {
		src string
		opt int
	}
	alphabet := []hc{
		{"T | where not(a)", -1},
		{"T | where not(a)", 1},
		{"T | where not(a)", 2},
		{"let p = 5; T | where a == p", 3},
		{"T | where a == p", 3},
		{"let n = 1; let p = n; T | take p | where a == n", 4},
		{"T | join kind=bogus (R) on k", 0},
		{"T | where f(x) == strcat(a, 'p')", 4},
		// calls that fail after bindings were made, and calls that mention those names unbound
		{"let n = 5; let q = 1; T | where not(a, b)", 3},
		{"let n = 5; T | where $left.a == p", 4},
		{"T | project n, p, q", -1},
		{"T | take n", 1},
		{"let lim = n; T | take lim", 2},
		// a let with an empty (non-nil) parameter map: the binding must not reach the caller's map
		{"let n = 10; T | take n", 2},
		{"T | where n > 3 | project n", 2},
		// a call that fails half way through writing an expression, then calls that write similar expressions
		{"T | where a > -(a + not(b, c)) | take 3", -1},
		{"T | extend x = -a, y = -(b), z = strcat(a, -c) | top 5 by -x", -1},
		// sources that differ only in line ends / blanks / comments but copy source text into the output
		{"T | extend a +\n  b | summarize max(a\n+ b) by c", -1},
		{"T | extend a +\r\n  b | summarize max(a\r\n+ b) by c", -1},
		{"T | extend a +  b | summarize max(a + b) by c // x", -1},
		{"T | where a == 'unterminated\n", -1},
		{"T | where a == 'unterminated\r\n", -1},
		// the same mistake at the same byte offsets on a different line / column
		{"T |\njoin kind=bogus (R) on k", 0},
		{"T |\tjoin kind=bogus (R) on k", 0},
		{"Té| join kind=bogus (R) on k", 0},
		{"T | where not(a,\nb)", -1},
		{"T | where not(a, b)", -1},
	}
	// nil, zero value and empty map are equivalent on every kind of source
	for _, src := range []string{"let n = 10; T | take n", "let n = 1; let m = n + 1; T | where a == m | take n", "T | where p == 1", "let p = 2; T | where not(p, 1)", "T | join kind=x (R) on k"} {
		var rs []result
		for _, oi := range []int{0, 1, 2} {
			rt.Restore()
			var got result
			func() {
				defer func() {
					if p := recover(); p != nil {
						got = result{Err: fmt.Sprintf("panic: %v", p)}
					}
				}()
				got = doCall(call{"compile", src, oi}, mkOptions())
			}()
			rs = append(rs, got)
		}
		rt.Restore()
		plain := doCall(call{"compile", src, -1}, mkOptions())
		if rs[0] != rs[1] || rs[1] != rs[2] || rs[0] != plain {
			w.Begin("histories", src)
			w.Fail("options-not-equivalent", src, fmt.Sprintf("pql.Compile / nil / zero / empty-map options give different results: %+v | %+v | %+v | %+v", plain, rs[0], rs[1], rs[2]), nil)
		}
	}
	// the same options value reused after the caller changed the map: the result depends on the map as it is now
	type change struct {
		name   string
		before map[string]string
		apply  func(o *pql.CompileOptions)
		after  map[string]string
	}
	for _, ch := range []change{
		{"snippet replaced", map[string]string{"p": "{lo:Int32}", "n": "$2"}, func(o *pql.CompileOptions) { o.Parameters["p"] = "{hi:Int32}" }, map[string]string{"p": "{hi:Int32}", "n": "$2"}},
		{"key swapped", map[string]string{"p": "$1", "n": "$2"}, func(o *pql.CompileOptions) { delete(o.Parameters, "p"); o.Parameters["q"] = "$3" }, map[string]string{"q": "$3", "n": "$2"}},
		{"map replaced", map[string]string{"p": "$1"}, func(o *pql.CompileOptions) { o.Parameters = map[string]string{"p": "$9"} }, map[string]string{"p": "$9"}},
		{"entry added", map[string]string{"p": "$1"}, func(o *pql.CompileOptions) { o.Parameters["q"] = "$2" }, map[string]string{"p": "$1", "q": "$2"}},
		{"entry removed", map[string]string{"p": "$1", "q": "$2"}, func(o *pql.CompileOptions) { delete(o.Parameters, "q") }, map[string]string{"p": "$1"}},
		{"map set to nil", map[string]string{"p": "$1"}, func(o *pql.CompileOptions) { o.Parameters = nil }, nil},
	} {
		for _, src := range []string{"T | where a > p and b < q | take n", "let p = 5; T | where a == p or b == q", "T | join (R | where y > p) on k | project p2 = q"} {
			rt.Restore()
			o := &pql.CompileOptions{Parameters: ch.before}
			cp := map[string]string{}
			for k, v := range ch.before {
				cp[k] = v
			}
			o.Parameters = cp
			first := doCallSafe(call{"compile", src, 0}, []*pql.CompileOptions{o})
			ch.apply(o)
			second := doCallSafe(call{"compile", src, 0}, []*pql.CompileOptions{o})
			rt.Restore()
			want := doCallSafe(call{"compile", src, 0}, []*pql.CompileOptions{{Parameters: ch.after}})
			_ = first
			if second != want {
				w.Begin("histories", src)
				w.Fail("options-reused-after-change", src, fmt.Sprintf("options value reused after the caller's map changed (%s): second call returns %+v, a fresh options value with the same map returns %+v", ch.name, second, want), nil)
			}
		}
	}
	depth := 3
	if tier == "thorough" {
		depth = 4
	}
	fresh := make([]result, len(alphabet))
	for i, c := range alphabet {
		rt.Restore()
		fresh[i] = doCall(call{"compile", c.src, c.opt}, mkOptions())
	}
	// nil, zero value and empty map are equivalent
	if fresh[0] != fresh[1] || fresh[1] != fresh[2] {
		w.Begin("histories", alphabet[0].src)
		w.Fail("options-not-equivalent", alphabet[0].src, fmt.Sprintf("nil / zero / empty-map options give different results: %+v %+v %+v", fresh[0], fresh[1], fresh[2]), nil)
	}
	var seq []int
	var count int64
	callsOf := func(idx []int) []call {
		var out []call
		for _, ci := range idx {
			out = append(out, call{"compile", alphabet[ci].src, alphabet[ci].opt})
		}
		return out
	}
	var rec func()
	rec = func() {
		if len(seq) > 0 {
			count++
			rt.Restore()
			opts := mkOptions()
			pristine := mkOptions()
			for k, ci := range seq {
				c := alphabet[ci]
				got := doCall(call{"compile", c.src, c.opt}, opts)
				if got != fresh[ci] {
					w.Begin("histories", fmt.Sprint(seq))
					w.Fail("result-depends-on-history", c.src, fmt.Sprintf("call %d of history %v (%q, options #%d) returns %+v, but %+v when made first", k, seq, c.src, c.opt, got, fresh[ci]), map[string]any{"history": fmt.Sprint(seq), "calls": callsOf(seq[:k+1])})
					return
				}
				if !sameOptions(opts, pristine) {
					w.Begin("histories", fmt.Sprint(seq))
					w.Fail("parameter-map-modified", c.src, fmt.Sprintf("after call %d of history %v the caller's options changed: %+v", k, seq, opts[c.opt]), map[string]any{"history": fmt.Sprint(seq), "calls": callsOf(seq[:k+1])})
					return
				}
			}
		}
		if len(seq) == depth {
			return
		}
		for i := range alphabet {
			seq = append(seq, i)
			if len(seq) <= 2 {
				// one watchdog case per two-call prefix
				w.Begin("histories", fmt.Sprint(seq))
				w.Nontrivial()
			}
			rec()
			seq = seq[:len(seq)-1]
		}
	}
	w.Begin("histories", "sequential call histories")
	w.Nontrivial()
	rec()
	w.Count("states", count)
	w.Count("transitions", count)
	w.Count("traces_validated", count)
	r.Extra["histories"] = map[string]any{"alphabet": len(alphabet), "depth": depth, "histories": count}
}

func scheduleOf(v *run.Viol) []int {
	var out []int
	switch x := v.Extra["schedule"].(type) {
	case []int:
		return x
	case []any:
		for _, e := range x {
			if f, ok := e.(float64); ok {
				out = append(out, int(f))
			}
		}
	}
	return out
}

// replayViol re-executes the recorded schedule of a violation; the written-object
// set is rebuilt first so that the same scheduling points exist.
func replayViol(w *run.Worker, v *run.Viol) {
	if src, ok := v.Extra["s5_source"].(string); ok && src != "" {
		s5Source = src
	}
	name, _ := v.Extra["scenario"].(string)
	for _, sc := range scenarios() {
		if sc.Name != name {
			continue
		}
		e := &explorer{w: w, sc: sc, ever: map[string]bool{}, outcomes: map[string]bool{}, deadline: time.Now().Add(time.Minute), seen: map[uint64]int{}}
		e.expected = sequentialResults(sc)
		if ev, ok := v.Extra["ever_written"].([]any); ok {
			for _, x := range ev {
				if s, ok := x.(string); ok {
					e.ever[s] = true
				}
			}
		}
		if ev, ok := v.Extra["ever_written"].([]string); ok {
			for _, s := range ev {
				e.ever[s] = true
			}
		}
		prefix := scheduleOf(v)
		ex, o, err := e.runOnce(prefix)
		w.Begin("interleavings:"+sc.Name, sc.Name)
		e.check(ex, o, prefix, err)
		return
	}
	if raw, ok := v.Extra["repeat"]; ok {
		var c call
		b, _ := json.Marshal(raw)
		json.Unmarshal(b, &c)
		w.Begin(v.Check, v.Source)
		rt.Restore()
		first := doCallSafe(c, mkOptions())
		for rep := 0; rep < 300; rep++ {
			rt.Restore()
			recheckLive()
			if again := doCallSafe(c, mkOptions()); again != first {
				w.Fail(v.Sig, c.Src, fmt.Sprintf("%s %q returns %+v and %+v", c.Kind, c.Src, first, again), nil)
				return
			}
		}
		return
	}
	// sequential histories: run the recorded calls again and compare every call with its fresh-state result
	var calls []call
	for _, key := range []string{"calls", "pair"} {
		if raw, ok := v.Extra[key]; ok {
			b, _ := json.Marshal(raw)
			json.Unmarshal(b, &calls)
		}
	}
	if len(calls) == 0 {
		return
	}
	w.Begin(v.Check, v.Source)
	fresh := make([]result, len(calls))
	for i, c := range calls {
		rt.Restore()
		recheckLive()
		fresh[i] = doCallSafe(c, mkOptions())
	}
	rt.Restore()
	recheckLive()
	opts := mkOptions()
	pristine := mkOptions()
	for i, c := range calls {
		got := doCallSafe(c, opts)
		if got != fresh[i] {
			w.Fail("result-depends-on-history", c.Src, fmt.Sprintf("call %d (%s %q, options #%d) returns %+v, but %+v when made first", i, c.Kind, c.Src, c.Opt, got, fresh[i]), nil)
			return
		}
		if !sameOptions(opts, pristine) {
			w.Fail("parameter-map-modified", c.Src, fmt.Sprintf("after call %d the caller's options changed: %+v", i, opts[c.Opt]), nil)
			return
		}
	}
	if l, now := recheckLive(); l != nil {
		w.Fail("result-changed-after-return:"+l.call.Kind, l.call.Src, fmt.Sprintf("the value returned by %s %q changed: first %.200s, now %.200s", l.call.Kind, l.call.Src, l.first, now), nil)
	}
}

func replayMain(path string) int {
	v, err := run.LoadViol(path)
	if err != nil {
		fmt.Fprintf(os.Stderr, "CHECK-ERROR %v\n", err)
		return 2
	}
	got := run.Probe("C14", func(w *run.Worker) { replayViol(w, v) })
	fmt.Printf("replay of %s (sig=%s)\n", path, v.Sig)
	for _, g := range got {
		fmt.Printf("reported: sig=%s\n  %s\n", g.Sig, strings.ReplaceAll(g.Detail, "\n", "\n  "))
		if g.Sig == v.Sig {
			fmt.Printf("VIOLATION property=C14 replay=%s\n", path)
			return 1
		}
	}
	fmt.Println("not reproduced on this tree")
	return 0
}

// replayTier: replay files are named <ID>-<tier>-<n>.json by the run engine.
func replayTier(path string) string {
	if strings.Contains(filepath.Base(path), "-thorough-") {
		return "thorough"
	}
	return "quick"
}

// pairAlphabet: the grammar corpus (every operator variant, pairs of representative operators, joins,
// lets, several statements) as sources, each also in two failing forms: cut after two thirds of its
// lexemes (syntax error) and followed by an operator that fails late in compilation.
func pairAlphabet(tier string) []call {
	var out []call
	seen := map[string]bool{}
	add := func(kind, src string, opt int) {
		k := fmt.Sprint(kind, "\x00", src, "\x00", opt)
		if !seen[k] {
			seen[k] = true
			out = append(out, call{kind, src, opt})
		}
	}
	// names spelled like generated names; failing lets next to similarly spelled bindings (messages that quote candidates)
	for _, n := range []string{"__subquery0", "__subquery2"} {
		add("compile", n+" | where a > 1 | project a | count", -1)
		add("compile", "T | where a > 1 | join kind=leftouter ("+n+" | where b > 0) on k | project a | count", -1)
		add("compile", "T | where a | as "+n+" | project b | where b | count", -1)
	}
	for _, opt := range []int{-1, 5} {
		add("compile", "let window_us = 1000; let span = window_s * 2; T | where a > span", opt)
		add("compile", "let alpha1 = 1; let alpha2 = 2; let alpha3 = 3; let beta = alpha + alphaX; T | take beta", opt)
		add("compile", "let window_us = 1; T | where f(window_s) > window_us | project window_ns", opt)
	}
	// a binding used several times (in the pipeline and in a join's right-hand side), for every kind of value
	for _, v := range []string{"now()", "now() - 3600", "f(now())", "strcat('a', 'b')", "-5", "1 + 2", "'s'", "p"} {
		add("compile", "let t = "+v+"; T | where a > t | join (R | where b > t) on k | extend c = t", 3)
		add("compile", "let t = "+v+"; let u = t; T | where a > u and b < t | project t2 = t, u2 = u", -1)
	}
	progs := gen.Programs()
	single := len(gen.OperatorVariants())
	for i, p := range progs {
		pr := gen.Print(p)
		src := pr.Layout(pr.Uniform(" ")).Source
		// quick: every single-operator program, every 6th of the others; failing forms for every 8th / 2nd
		if tier != "thorough" && i >= single && i%6 != 0 {
			continue
		}
		add("compile", src, -1)
		if (tier != "thorough" && i%8 != 0) || i%2 != 0 {
			continue
		}
		cut := pr.Lexemes[:len(pr.Lexemes)*2/3]
		var sb strings.Builder
		for _, l := range cut {
			sb.WriteString(l)
			sb.WriteByte(' ')
		}
		add("compile", sb.String(), -1)
		add("compile", src+" | where not(a, b)", -1)
		add("compile", src, 4)
		add("walk", src, -1)
		switch i % 24 / 8 * 8 {
		case 0:
			add("parse", src, -1)
		case 8:
			add("scan", src, -1)
		case 16:
			add("split", src+"; "+src, -1)
		}
	}
	return out
}

// pairHistories: every ordered pair (p, q) of the pair alphabet: q made directly after p in a fresh
// state returns what q returns when made first, and what p returned does not change.
func pairHistories(w *run.Worker, r *run.Runner, tier string) {
	alpha := pairAlphabet(tier)
	fresh := make([]result, len(alpha))
	safe := func(c call, opts []*pql.CompileOptions) (res result) {
		defer func() {
			if p := recover(); p != nil {
				res = result{Err: fmt.Sprintf("panic: %v", p)}
			}
		}()
		return doCall(c, opts)
	}
	var stable []call
	var stableFresh []result
	for _, c := range alpha {
		rt.Restore()
		recheckLive()
		first := safe(c, mkOptions())
		ok := true
		for rep := 0; rep < 4 && ok; rep++ {
			rt.Restore()
			recheckLive()
			if again := safe(c, mkOptions()); again != first {
				w.Begin("pair-histories", c.Src)
				w.Fail("result-not-deterministic:"+c.Kind, c.Src, fmt.Sprintf("%s %q (options #%d) made first in a fresh state returns %+v, the same call again %+v", c.Kind, c.Src, c.Opt, first, again), map[string]any{"repeat": c})
				ok = false
			}
		}
		// a nil options value, the zero value and an empty parameter map are equivalent (results and error texts)
		if ok && c.Kind == "compile" && c.Opt == -1 {
			for _, o := range []int{0, 1, 2} {
				rt.Restore()
				if alt := safe(call{c.Kind, c.Src, o}, mkOptions()); alt != first {
					w.Begin("pair-histories", c.Src)
					w.Fail("options-not-equivalent", c.Src, fmt.Sprintf("compile %q returns %+v without options and %+v with options #%d (nil / zero value / empty map)", c.Src, first, alt, o), map[string]any{"repeat": c})
					ok = false
					break
				}
			}
		}
		if ok {
			stable = append(stable, c)
			stableFresh = append(stableFresh, first)
		}
	}
	alpha, fresh = stable, stableFresh
	recheckLive()
	var count int64
	pristine := mkOptions()
	for pi, p := range alpha {
		if time.Now().After(r.Deadline) {
			r.Cap(fmt.Sprintf("pair-histories: first calls %d of %d completed before the tier deadline", pi, len(alpha)))
			break
		}
		w.Begin("pair-histories", p.Src)
		w.Nontrivial()
		for qi, q := range alpha {
			rt.Restore()
			opts := mkOptions()
			first := safe(p, opts)
			got := safe(q, opts)
			count++
			if first != fresh[pi] {
				w.Fail("harness:restore-incomplete", p.Src, fmt.Sprintf("the first call after Restore returns %+v, earlier %+v", first, fresh[pi]), nil)
				return
			}
			if got != fresh[qi] {
				w.Fail("result-depends-on-history", q.Src, fmt.Sprintf("%s %q (options #%d) directly after %s %q (options #%d) returns %+v, but %+v when made first", q.Kind, q.Src, q.Opt, p.Kind, p.Src, p.Opt, got, fresh[qi]),
					map[string]any{"pair": []call{p, q}})
				return
			}
			if l, now := recheckLive(); l != nil {
				w.Fail("result-changed-after-return:"+l.call.Kind, l.call.Src, fmt.Sprintf("the value returned by %s %q changed after %s %q: first %.200s, now %.200s", l.call.Kind, l.call.Src, q.Kind, q.Src, l.first, now), map[string]any{"pair": []call{p, q}})
				return
			}
			if !sameOptions(opts, pristine) {
				w.Fail("parameter-map-modified", q.Src, fmt.Sprintf("after %q then %q the caller's options changed", p.Src, q.Src), map[string]any{"pair": []call{p, q}})
				return
			}
		}
	}
	w.Count("states", count)
	w.Count("transitions", 2*count)
	w.Count("traces_validated", count)
	r.Extra["pair_histories"] = map[string]any{"alphabet": len(alpha), "pairs": count}
}
