// Command c14race is the supplementary free-running pass of C14: the same kinds
// of calls as the explorer's scenarios, made by real goroutines in a fresh
// process, to be built with -race. The cooperative scheduler's hand-offs are
// happens-before edges that blind the race detector, so this pass runs without it.
// It samples schedules and is evidence only; the verdict on interleavings comes
// from the exhaustive explorer.
package main

import (
	"fmt"
	"os"
	"strings"
	"sync"

	"github.com/runreveal/pql"
	"github.com/runreveal/pql/parser"
	"verif/harness/gen"
)

// determinism: every source of the grammar corpus (and long pipelines with two planted faults, so that "which
// error is reported" is observable) is compiled repeatedly, by the main goroutine and by several goroutines
// at once; all results for one source must be equal. Free-running: it samples timings, and any difference it
// sees is a real violation of "the same source gives the same result".
func determinism() {
	var srcs []string
	for _, p := range gen.Programs() {
		pr := gen.Print(p)
		srcs = append(srcs, pr.Layout(pr.Uniform(" ")).Source)
	}
	faults := []string{"where not(a, b)", "extend z = isnull()", "where $left.a == 1", "take 1.5", "join kind=bogus (R) on k", "summarize countif() by b"}
	for _, k := range []int{3, 8, 13, 20, 40} {
		for i := 0; i < k; i += 1 + k/5 {
			for j := i + 1; j < k; j += 1 + k/4 {
				var ops []string
				for s := 0; s < k; s++ {
					switch {
					case s == i:
						ops = append(ops, faults[(i+k)%len(faults)])
					case s == j:
						ops = append(ops, faults[(j+k+1)%len(faults)])
					default:
						ops = append(ops, []string{"where a > 1", "project a, b", "extend c = a + 1", "sort by a", "summarize a = max(a), b = max(b) by c", "project a, b, c"}[s%6])
					}
				}
				srcs = append(srcs, "T | "+strings.Join(ops, " | "))
			}
		}
	}
	opts := &pql.CompileOptions{Parameters: map[string]string{"n": "{n:Int32}"}}
	call := func(s string, mode int) string {
		var sql string
		var err error
		if mode%2 == 0 {
			sql, err = pql.Compile(s)
		} else {
			sql, err = opts.Compile(s)
		}
		return fmt.Sprint(sql, "|", err)
	}
	for _, s := range srcs {
		first := [2]string{call(s, 0), call(s, 1)}
		for rep := 0; rep < 10; rep++ {
			for mode := 0; mode < 2; mode++ {
				if got := call(s, mode); got != first[mode] {
					fmt.Printf("MISMATCH the same call gives different results: source %q\n  first:  %s\n  call %d: %s\n", s, first[mode], rep+2, got)
					os.Exit(5)
				}
			}
		}
		var wg sync.WaitGroup
		bad := make(chan string, 8)
		for g := 0; g < 4; g++ {
			g := g
			wg.Add(1)
			go func() {
				defer wg.Done()
				for rep := 0; rep < 3; rep++ {
					if got := call(s, g); got != first[g%2] {
						select {
						case bad <- got:
						default:
						}
					}
				}
			}()
		}
		wg.Wait()
		select {
		case got := <-bad:
			fmt.Printf("MISMATCH the same call gives different results under concurrency: source %q\n  alone:      %s\n  concurrent: %s\n", s, first[0], got)
			os.Exit(5)
		default:
		}
	}
}

func walkText(s string) string {
	st, _ := parser.Parse(s)
	var sb strings.Builder
	for _, x := range st {
		parser.Walk(x, func(n parser.Node) bool {
			fmt.Fprintf(&sb, "%T%v ", n, n.Span())
			if j, ok := n.(*parser.JoinOperator); ok && j.Right != nil {
				parser.Walk(j.Right, func(m parser.Node) bool { fmt.Fprintf(&sb, "<%T%v> ", m, m.Span()); return true })
				return false
			}
			return true
		})
	}
	return sb.String()
}

func main() {
	if len(os.Args) > 1 && os.Args[1] == "det" {
		determinism()
	}
	shared := &pql.CompileOptions{Parameters: map[string]string{"p": "{p:Int32}"}}
	srcs := []string{
		"T | where not(a) and isnull(b)",
		"T | project s = strcat(a, b), i = iff(a > 1, b, c), n = now()",
		"T | join kind=bogus (R) on k",
		"let p = 5; T | where a == p",
		"T | where tolower(a) == p | take 2",
		"T | summarize n = count(), m = countif(a > 1) by b | top 3 by n",
		"L | where x > 1 | join kind=inner (R | where y > 0) on k, $left.x < $right.y | project x, y",
		"A | join (B | join kind=leftouter (C) on $left.b == $right.c) on $left.a == $right.b | count",
		`T | where a == 'x\'y' and b == "p\\q"`,
		`T | extend d = 'back\\slash', e = "o'clock" | where c == "dq\"x"`,
	}
	walkWant := make([]string, len(srcs))
	for i, s := range srcs {
		walkWant[i] = walkText(s)
	}
	walkBad := make(chan string, 8)
	want := make([]string, len(srcs))
	var wg sync.WaitGroup
	results := make([][]string, 8)
	start := make(chan struct{})
	for g := 0; g < 8; g++ {
		g := g
		wg.Add(1)
		go func() {
			defer wg.Done()
			<-start
			for i, s := range srcs {
				var sql string
				var err error
				switch (g + i) % 3 {
				case 0:
					sql, err = pql.Compile(s)
				case 1:
					sql, err = shared.Compile(s)
				default:
					parser.Parse(s)
					parser.Scan(s)
					if got := walkText(s); got != walkWant[i] {
						select {
						case walkBad <- fmt.Sprintf("MISMATCH Walk of %q under concurrency: %s vs %s", s, got, walkWant[i]):
						default:
						}
					}
					sql, err = (&pql.CompileOptions{Parameters: map[string]string{"p": "{p:Int32}"}}).Compile(s)
				}
				results[g] = append(results[g], fmt.Sprint(sql, err))
			}
		}()
	}
	close(start)
	wg.Wait()
	select {
	case m := <-walkBad:
		fmt.Println(m)
		os.Exit(5)
	default:
	}
	// plain Compile and Compile with p bound differ for sources using p; compare like with like
	for i, s := range srcs {
		a, ea := pql.Compile(s)
		want[i] = fmt.Sprint(a, ea)
		_ = s
	}
	for g := range results {
		for i := range srcs {
			if (g+i)%3 == 0 && results[g][i] != want[i] {
				fmt.Printf("MISMATCH goroutine %d source %q: %s vs %s\n", g, srcs[i], results[g][i], want[i])
				os.Exit(5)
			}
		}
	}
	if len(shared.Parameters) != 1 || shared.Parameters["p"] != "{p:Int32}" {
		fmt.Println("MISMATCH shared parameter map modified:", shared.Parameters)
		os.Exit(5)
	}
}
