// Command c14race is the supplementary free-running pass of C14: the same kinds
// of calls as the explorer's scenarios, made by real goroutines in a fresh
// process, to be built with -race. The cooperative scheduler's hand-offs are
// happens-before edges that blind the race detector, so this pass runs without it.
// It samples schedules and is evidence only; the verdict on interleavings comes
// from the exhaustive explorer.
package main

import (
	"fmt"
	"os"
	"sync"

	"github.com/runreveal/pql"
	"github.com/runreveal/pql/parser"
)

func main() {
	shared := &pql.CompileOptions{Parameters: map[string]string{"p": "{p:Int32}"}}
	srcs := []string{
		"T | where not(a) and isnull(b)",
		"T | project s = strcat(a, b), i = iff(a > 1, b, c), n = now()",
		"T | join kind=bogus (R) on k",
		"let p = 5; T | where a == p",
		"T | where tolower(a) == p | take 2",
		"T | summarize n = count(), m = countif(a > 1) by b | top 3 by n",
	}
	want := make([]string, len(srcs))
	var wg sync.WaitGroup
	results := make([][]string, 8)
	start := make(chan struct{})
	for g := 0; g < 8; g++ {
		g := g
		wg.Add(1)
		go func() {
			defer wg.Done()
			<-start
			for i, s := range srcs {
				var sql string
				var err error
				switch (g + i) % 3 {
				case 0:
					sql, err = pql.Compile(s)
				case 1:
					sql, err = shared.Compile(s)
				default:
					parser.Parse(s)
					parser.Scan(s)
					sql, err = (&pql.CompileOptions{Parameters: map[string]string{"p": "{p:Int32}"}}).Compile(s)
				}
				results[g] = append(results[g], fmt.Sprint(sql, err))
			}
		}()
	}
	close(start)
	wg.Wait()
	// plain Compile and Compile with p bound differ for sources using p; compare like with like
	for i, s := range srcs {
		a, ea := pql.Compile(s)
		want[i] = fmt.Sprint(a, ea)
		_ = s
	}
	for g := range results {
		for i := range srcs {
			if (g+i)%3 == 0 && results[g][i] != want[i] {
				fmt.Printf("MISMATCH goroutine %d source %q: %s vs %s\n", g, srcs[i], results[g][i], want[i])
				os.Exit(5)
			}
		}
	}
	if len(shared.Parameters) != 1 || shared.Parameters["p"] != "{p:Int32}" {
		fmt.Println("MISMATCH shared parameter map modified:", shared.Parameters)
		os.Exit(5)
	}
}
