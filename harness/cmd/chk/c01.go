package main

import (
	"fmt"
	"strings"

	"github.com/runreveal/pql"
	"verif/harness/gen"
	"verif/harness/run"
	"verif/harness/sem"
	"verif/harness/sqlx"
)

func init() { register("C01", "exploration", c01Main, c01Replay) }

// ---- typed leaves ----

type leafType int

const (
	tNum leafType = iota
	tStr
	tArr
)

type typedLeaf struct {
	name string
	typ  leafType
}

// leafTypes infers, for every Leaf of a shape (left to right), the type that makes
// the tree well-typed where possible.
func leafTypes(sh gen.Expr) []leafType {
	var out []leafType
	var rec func(e gen.Expr, want leafType)
	rec = func(e gen.Expr, want leafType) {
		switch e := e.(type) {
		case gen.Leaf:
			out = append(out, want)
		case *gen.Paren:
			rec(e.X, want)
		case *gen.Unary:
			rec(e.X, tNum)
		case *gen.Binary:
			t := tNum
			if e.Op == "=~" || e.Op == "!~" {
				t = tStr
			}
			rec(e.X, t)
			rec(e.Y, t)
		case *gen.In:
			rec(e.X, tNum)
			for _, v := range e.Vals {
				rec(v, tNum)
			}
		case *gen.Index:
			rec(e.X, tArr)
			rec(e.I, tNum)
		case *gen.Call:
			t := tNum
			switch e.Func {
			case "strcat", "tolower", "toupper":
				t = tStr
			}
			for _, a := range e.Args {
				rec(a, t)
			}
		}
	}
	rec(sh, tNum)
	return out
}

var (
	domNumQuick = []sem.Val{sem.VNull, sem.N(0), sem.N(1), sem.N(2)}
	domNumThor  = []sem.Val{sem.VNull, sem.N(0), sem.N(1), sem.N(2), sem.N(0.5), sem.N(-1)}
	domStr      = []sem.Val{sem.VNull, sem.S("a"), sem.S("A")}
	domArr      = []sem.Val{sem.A(sem.N(1), sem.N(2)), sem.A(sem.N(2), sem.N(1)), sem.VNull}
)

func leafName(i int, t leafType) string {
	c := string(rune('a' + i%26))
	switch t {
	case tStr:
		return "s" + c
	case tArr:
		return "r" + c
	}
	return "n" + c
}

// ---- positions ----

type position struct {
	name   string
	closed bool // only closed (literal-leaf) trees
	join   bool
	build  func(e string) string
	// extract returns the SQL expressions that must each equal the PQL expression.
	extract func(st *sqlx.Stmt) ([]sqlx.Expr, error)
	truth   bool // compare by truth only (ON keeps a pair iff the condition is true)
}

func lastQ(st *sqlx.Stmt) *sqlx.Select { return st.Q }

var errShape = fmt.Errorf("output does not have the expected clause")

var c01Positions = []position{
	{name: "where", build: func(e string) string { return "T | where " + e },
		extract: func(st *sqlx.Stmt) ([]sqlx.Expr, error) {
			if st.Q.Where == nil {
				return nil, errShape
			}
			return []sqlx.Expr{st.Q.Where}, nil
		}},
	{name: "project", build: func(e string) string { return "T | project x = " + e },
		extract: func(st *sqlx.Stmt) ([]sqlx.Expr, error) {
			if len(st.Q.Items) != 1 || st.Q.Items[0].Star {
				return nil, errShape
			}
			return []sqlx.Expr{st.Q.Items[0].X}, nil
		}},
	{name: "extend", build: func(e string) string { return "T | extend x = " + e },
		extract: func(st *sqlx.Stmt) ([]sqlx.Expr, error) {
			if len(st.Q.Items) != 2 || st.Q.Items[1].Star {
				return nil, errShape
			}
			return []sqlx.Expr{st.Q.Items[1].X}, nil
		}},
	{name: "extend-unnamed", build: func(e string) string { return "T | extend " + e },
		extract: func(st *sqlx.Stmt) ([]sqlx.Expr, error) {
			if len(st.Q.Items) != 2 || st.Q.Items[1].Star {
				return nil, errShape
			}
			return []sqlx.Expr{st.Q.Items[1].X}, nil
		}},
	{name: "summarize", build: func(e string) string { return "T | summarize x = max(" + e + ") by k = " + e },
		extract: func(st *sqlx.Stmt) ([]sqlx.Expr, error) {
			q := st.Q
			if len(q.Items) != 2 || len(q.GroupBy) != 1 || q.Items[0].Star || q.Items[1].Star {
				return nil, errShape
			}
			f, ok := q.Items[1].X.(*sqlx.Func)
			if !ok || len(f.Args) != 1 {
				return nil, errShape
			}
			return []sqlx.Expr{q.Items[0].X, f.Args[0], q.GroupBy[0]}, nil
		}},
	{name: "sort", build: func(e string) string { return "T | sort by " + e + " asc" },
		extract: func(st *sqlx.Stmt) ([]sqlx.Expr, error) {
			if len(st.Q.OrderBy) != 1 {
				return nil, errShape
			}
			return []sqlx.Expr{st.Q.OrderBy[0].X}, nil
		}},
	{name: "top-by", build: func(e string) string { return "T | top 2 by " + e },
		extract: func(st *sqlx.Stmt) ([]sqlx.Expr, error) {
			if len(st.Q.OrderBy) != 1 {
				return nil, errShape
			}
			return []sqlx.Expr{st.Q.OrderBy[0].X}, nil
		}},
	{name: "take", closed: true, build: func(e string) string { return "T | take " + e },
		extract: func(st *sqlx.Stmt) ([]sqlx.Expr, error) {
			if st.Q.Limit == nil {
				return nil, errShape
			}
			return []sqlx.Expr{st.Q.Limit}, nil
		}},
	{name: "let", closed: true, build: func(e string) string { return "let v = " + e + "; T | where v" },
		extract: func(st *sqlx.Stmt) ([]sqlx.Expr, error) {
			if st.Q.Where == nil {
				return nil, errShape
			}
			return []sqlx.Expr{st.Q.Where}, nil
		}},
	{name: "let-operand", closed: true, build: func(e string) string { return "let v = " + e + "; T | where -v * v[v] == v" },
		extract: nil},
	{name: "join-on", join: true, truth: true, build: func(e string) string { return "L | join kind=inner (R) on " + e },
		extract: func(st *sqlx.Stmt) ([]sqlx.Expr, error) {
			if st.Q.Join == nil {
				return nil, errShape
			}
			return []sqlx.Expr{st.Q.Join.On}, nil
		}},
}

// ---- one comparison ----

type c01Case struct {
	src     string
	pos     *position
	tree    gen.Expr // the PQL expression the SQL must be equivalent to
	leaves  []typedLeaf
	literal bool
}

type c01State struct {
	in   *sem.Interner
	thor bool
}

func domainOf(t leafType, thor bool) []sem.Val {
	switch t {
	case tStr:
		return domStr
	case tArr:
		return domArr
	}
	if thor {
		return domNumThor
	}
	return domNumQuick
}

// compareExpr evaluates both sides over all valuations of the leaves.
func compareExpr(w *run.Worker, st *c01State, src string, tree gen.Expr, sqlExprs []sqlx.Expr, leaves []typedLeaf, truth bool, keyPrefix string, sig string, sql string, extra map[string]any) bool {
	ctx := &sem.Ctx{Env: sem.Env{}, In: st.in}
	doms := make([][]sem.Val, len(leaves))
	total := 1
	for i, l := range leaves {
		doms[i] = domainOf(l.typ, st.thor)
		total *= len(doms[i])
	}
	if total > 20000 {
		// keep the row sweep bounded: fall back to the quick domain
		total = 1
		for i, l := range leaves {
			doms[i] = domainOf(l.typ, false)
			total *= len(doms[i])
		}
	}
	idx := make([]int, len(leaves))
	skipped, illTyped := int64(0), int64(0)
	for {
		for i, l := range leaves {
			ctx.Env[keyPrefix+l.name] = doms[i][idx[i]]
		}
		want := ctx.PQL(tree)
		if want.K == sem.Err && strings.HasPrefix(want.S, "unknown column") {
			panic("harness: reference interpreter met " + want.S + " in " + src)
		}
		if want.K == sem.Unspec {
			skipped++
		} else {
			for k, se := range sqlExprs {
				got := ctx.SQL(se)
				bad := false
				if got.K == sem.Unspec {
					skipped++
					continue
				}
				switch {
				case want.K == sem.Err:
					// the same operators applied to the same operands fail on the same rows
					bad = got.K != sem.Err
					illTyped++
				case truth:
					bad = got.K == sem.Err || sem.IsTrue(got) != sem.IsTrue(want)
				default:
					bad = !sem.Equal(got, want)
				}
				if bad {
					var row []string
					for i, l := range leaves {
						row = append(row, fmt.Sprintf("%s=%s", l.name, doms[i][idx[i]]))
					}
					w.Fail(sig, src, fmt.Sprintf("PQL expression %s evaluates to %s, emitted SQL expression #%d %s evaluates to %s on row {%s}\nsql: %s",
						gen.ExprText(gen.WrapRoot(tree, gen.Minimal)), want, k, sqlx.Format(se), got, strings.Join(row, ", "), sql), extra)
					return false
				}
			}
		}
		// next valuation
		j := 0
		for j < len(idx) {
			idx[j]++
			if idx[j] < len(doms[j]) {
				break
			}
			idx[j] = 0
			j++
		}
		if j == len(idx) {
			break
		}
	}
	w.Count("rows_skipped_unspecified", skipped)
	w.Count("rows_ill_typed_both_sides_must_fail", illTyped)
	w.Count("rows_compared", int64(total)-skipped)
	return true
}

// c01Check compiles src, extracts the expressions at the position and compares.
func c01Check(w *run.Worker, st *c01State, c c01Case) {
	w.Begin("expr-meaning:"+c.pos.name, c.src)
	extra := map[string]any{"pos": c.pos.name, "expr": gen.ExprText(gen.WrapRoot(c.tree, gen.Minimal))}
	var ln []any
	for _, l := range c.leaves {
		ln = append(ln, l.name, int(l.typ))
	}
	extra["leaves"] = ln
	var sql string
	var err error
	if !w.Try(c.src, func() { sql, err = pql.Compile(c.src) }) {
		return
	}
	if err != nil {
		w.Fail("rejected:"+c.pos.name+":"+rootKind(c.tree), c.src, fmt.Sprintf("well-formed expression rejected at position %s: %v", c.pos.name, err), extra)
		return
	}
	stmt, _, perr := sqlx.ParseStatement(sql, sqlx.ClickHouse)
	if perr != nil {
		w.Fail("invalid-sql:"+c.pos.name, c.src, fmt.Sprintf("output is not valid SQL: %v\nsql: %s", perr, sql), extra)
		return
	}
	if c.pos.extract == nil {
		w.Nontrivial()
		return
	}
	exprs, xerr := c.pos.extract(stmt)
	if xerr != nil {
		w.Fail("shape:"+c.pos.name, c.src, fmt.Sprintf("%v\nsql: %s", xerr, sql), extra)
		return
	}
	w.Nontrivial()
	prefix := ""
	compareExpr(w, st, c.src, c.tree, exprs, c.leaves, c.pos.truth, prefix, "meaning:"+diffKind(c.tree), sql, extra)
}

func rootKind(e gen.Expr) string {
	switch e := gen.StripParens(e).(type) {
	case *gen.Binary:
		return e.Op
	case *gen.In:
		return "in"
	case *gen.Unary:
		return "sign" + e.Op
	case *gen.Index:
		return "index"
	case *gen.Call:
		return e.Func
	case *gen.Name:
		return "name"
	case *gen.Lit:
		return "literal"
	}
	return "?"
}

// diffKind names the construct pair (root kind and the kinds of its operands) of a failing tree.
func diffKind(e gen.Expr) string {
	e = gen.StripParens(e)
	var kids []gen.Expr
	switch e := e.(type) {
	case *gen.Binary:
		kids = []gen.Expr{e.X, e.Y}
	case *gen.In:
		kids = append([]gen.Expr{e.X}, e.Vals...)
	case *gen.Unary:
		kids = []gen.Expr{e.X}
	case *gen.Index:
		kids = []gen.Expr{e.X, e.I}
	case *gen.Call:
		kids = e.Args
	}
	s := rootKind(e)
	var ks []string
	for _, k := range kids {
		r := rootKind(k)
		if r != "name" && r != "literal" {
			ks = append(ks, r)
		}
	}
	if len(ks) > 0 {
		s += "(" + strings.Join(ks, ",") + ")"
	}
	return s
}

func c01Kinds() []gen.NodeKind {
	k := gen.AllBinKinds()
	k = append(k, gen.In1Kind, gen.In2Kind, gen.NegKind, gen.PosKind, gen.IndexKind,
		gen.CallKind("f", 1), gen.CallKind("f", 2),
		gen.CallKind("not", 1), gen.CallKind("isnull", 1), gen.CallKind("isnotnull", 1), gen.CallKind("iff", 3), gen.CallKind("iif", 3),
		gen.CallKind("strcat", 1), gen.CallKind("strcat", 2), gen.CallKind("strcat", 3), gen.CallKind("tolower", 1), gen.CallKind("toupper", 1), gen.CallKind("now", 0),
		gen.CallKind("count", 0), gen.CallKind("countif", 1))
	return k
}

// crossSideEq reports whether the tree contains an == whose two sides mention
// different join sides somewhere other than under top-level `and`s.
func joinExcluded(e gen.Expr, sides map[string]int) bool {
	var sideOf func(e gen.Expr) (l, r bool)
	sideOf = func(e gen.Expr) (l, r bool) {
		switch e := e.(type) {
		case *gen.Name:
			if len(e.Parts) == 2 {
				return e.Parts[0].Name == "$left", e.Parts[0].Name == "$right"
			}
		case *gen.Paren:
			return sideOf(e.X)
		case *gen.Unary:
			return sideOf(e.X)
		case *gen.Binary:
			l1, r1 := sideOf(e.X)
			l2, r2 := sideOf(e.Y)
			return l1 || l2, r1 || r2
		case *gen.In:
			l, r = sideOf(e.X)
			for _, v := range e.Vals {
				l2, r2 := sideOf(v)
				l, r = l || l2, r || r2
			}
			return
		case *gen.Index:
			l1, r1 := sideOf(e.X)
			l2, r2 := sideOf(e.I)
			return l1 || l2, r1 || r2
		case *gen.Call:
			for _, a := range e.Args {
				l2, r2 := sideOf(a)
				l, r = l || l2, r || r2
			}
			return
		}
		return false, false
	}
	var rec func(e gen.Expr, top bool) bool
	rec = func(e gen.Expr, top bool) bool {
		switch e := e.(type) {
		case *gen.Paren:
			return rec(e.X, top)
		case *gen.Binary:
			if e.Op == "==" {
				l, r := sideOf(e)
				if l && r && !top {
					// below anything but a top-level `and` the plain-equality form differs on NULLs by design
					return true
				}
				// at the top (or under top-level ands) `x == y` and plain `x = y` keep the same pairs:
				// compared by truth, so the grouping of the operands is still checked
			}
			nt := top && e.Op == "and"
			return rec(e.X, nt) || rec(e.Y, nt)
		case *gen.Unary:
			return rec(e.X, false)
		case *gen.In:
			if rec(e.X, false) {
				return true
			}
			for _, v := range e.Vals {
				if rec(v, false) {
					return true
				}
			}
		case *gen.Index:
			return rec(e.X, false) || rec(e.I, false)
		case *gen.Call:
			for _, a := range e.Args {
				if rec(a, false) {
					return true
				}
			}
		}
		return false
	}
	return rec(e, true)
}

func c01Main(r *run.Runner) {
	r.Rule = "every expression tree over 36 node kinds (15 binary operators, in/1, in/2, both signs, index, every built-in with its arities, unknown f/1 f/2) with at most N internal nodes, leaves = fresh typed columns, " +
		"printed with minimal, full and redundant parentheses and placed at each expression position (where, project, extend named/unnamed, summarize aggregate+key, sort, top, take, let, join on) is compiled; the output is parsed with ClickHouse operator priorities by the independent reader, " +
		"the expression at the position is extracted and evaluated over ALL valuations of its columns over the stated domains, and compared with the PQL tree evaluated with PQL grouping; plus wide families (one tree per construct - chains of every operator, in-lists, call arguments, iff/not/sign/index nests, one-hot variants in which only operand j decides the result - with k operands for every k in 1..65, thorough ..257) at every open position; plus a termination sweep over pairs of nesting wrappers at depths 12 and 40; non-trivial = compiled and reached the row sweep; distinct by construction (tree x parenthesisation x position)"
	r.Assume = []string{"primitive semantics of DESIGN.md appendix A are shared by both evaluators", "SQL is read with ClickHouse operator priorities",
		"rows on which the PQL expression is unspecified (=~ on NULL) are skipped and counted; on rows where it is ill-typed the SQL expression must fail too"}
	N, NPos := 3, 2
	if r.Thorough() {
		N, NPos = 4, 3
	}
	kinds := c01Kinds()
	shapes := gen.NewShapes(kinds, N-1)
	states := make([]*c01State, 64)
	getState := func(w *run.Worker) *c01State {
		if states[w.ID] == nil {
			states[w.ID] = &c01State{in: sem.NewInterner(), thor: r.Thorough()}
		}
		return states[w.ID]
	}
	// parentheses and depth never change whether compilation terminates or whether the output is valid SQL
	type dn struct{ i, j, depth int }
	var deeps []dn
	for i := range c12Wrappers {
		for j := range c12Wrappers {
			for _, d := range []int{12, 40} {
				deeps = append(deeps, dn{i, j, d})
			}
		}
	}
	r.Sweep("deep-nesting-terminates", int64(len(deeps)), func(w *run.Worker, item int64) {
		d := deeps[item]
		src := "T | where " + nestWrappers(d.i, d.j, d.depth, "a")
		w.Begin("expr-terminates", src)
		var sql string
		var err error
		if !w.Try(src, func() { sql, err = pql.Compile(src) }) {
			return
		}
		w.Nontrivial()
		if err != nil {
			w.Fail("rejected:deep:"+c12Wrappers[d.i].name, src, "well-formed nested expression rejected: "+err.Error(), nil)
			return
		}
		if _, _, perr := sqlx.ParseStatement(sql, sqlx.ClickHouse); perr != nil {
			w.Fail("invalid-sql:deep:"+c12Wrappers[d.i].name, src, fmt.Sprintf("output is not valid SQL: %v", perr), nil)
		}
	})
	c01Wide(r, getState)
	c01StringCompositions(r, getState)
	// leaf kinds
	r.Sweep("leaf-kinds", 3, func(w *run.Worker, item int64) {
		st := getState(w)
		c01LeafKinds(w, st, shapes, int(item))
	})
	// the tree enumeration last (largest): the families above are never starved by the tier deadline
	total := int64(0)
	for n := 1; n <= N; n++ {
		items := shapes.Items(n)
		total += shapes.Count(n)
		n := n
		r.Sweep(fmt.Sprintf("trees-%d", n), int64(len(items)), func(w *run.Worker, item int64) {
			st := getState(w)
			shapes.Do(items[item], func(sh gen.Expr) bool {
				c01Shape(w, st, sh, n, NPos)
				return !w.Stopped()
			})
		})
	}
	r.Extra["bounds"] = map[string]any{"internal_nodes": N, "all_positions_up_to_nodes": NPos, "node_kinds": len(kinds), "trees": total,
		"positions": len(c01Positions), "numeric_domain": fmt.Sprint(domainOf(tNum, r.Thorough())), "string_domain": fmt.Sprint(domStr), "array_domain": fmt.Sprint(domArr)}
	r.Sample("T | where not ( na ) in ( nb , nc )")
	r.Sample("T | extend x = ( - ra [ nb ] ) * nc")
	r.Sample("let v = - 1; T | where -v * v[v] == v")
}

func c01Shape(w *run.Worker, st *c01State, sh gen.Expr, n, nPos int) {
	types := leafTypes(sh)
	leaves := make([]typedLeaf, len(types))
	for i, t := range types {
		leaves[i] = typedLeaf{leafName(i, t), t}
	}
	tree := gen.Instantiate(sh, func(i int) gen.Expr { return gen.Col(leaves[i].name) })
	modes := []gen.ParenMode{gen.Minimal, gen.Full, gen.Redundant}
	for _, m := range modes {
		text := gen.ExprText(gen.WrapRoot(tree, m))
		for pi := range c01Positions {
			p := &c01Positions[pi]
			if p.closed || p.join {
				continue
			}
			if p.name != "where" && (n > nPos || m == gen.Full) {
				continue
			}
			c01Check(w, st, c01Case{src: p.build(text), pos: p, tree: tree, leaves: leaves})
		}
	}
	// join condition: leaves alternate between the two sides
	for pattern := 0; pattern < 4 && n <= nPos; pattern++ {
		// which side each leaf comes from: alternating, all left, all right, first left then right
		jl := make([]typedLeaf, len(leaves))
		jtree := gen.Instantiate(sh, func(i int) gen.Expr {
			side := "$left"
			switch pattern {
			case 0:
				if i%2 == 1 {
					side = "$right"
				}
			case 2:
				side = "$right"
			case 3:
				if i > 0 {
					side = "$right"
				}
			}
			jl[i] = typedLeaf{side + "." + leaves[i].name, leaves[i].typ}
			return &gen.Name{Parts: []gen.Ident{{Name: side}, {Name: leaves[i].name}}}
		})
		if !joinExcluded(jtree, nil) {
			for pi := range c01Positions {
				p := &c01Positions[pi]
				if p.join {
					for _, m := range []gen.ParenMode{gen.Minimal, gen.Redundant} {
						c01Check(w, st, c01Case{src: p.build(gen.ExprText(gen.WrapRoot(jtree, m))), pos: p, tree: jtree, leaves: jl})
					}
				}
			}
		}
	}
	// closed trees: leaves are literals of the right type
	if n <= nPos {
		lits := map[leafType][]gen.Expr{
			tNum: {gen.NumLit("1", "1"), gen.NumLit("2", "2"), gen.NumLit("0.5", "0.5")},
			tStr: {gen.StrLit("a"), gen.StrLit("A")},
		}
		closedOK := true
		for _, t := range types {
			if t == tArr {
				closedOK = false
			}
		}
		if closedOK {
			ctree := gen.Instantiate(sh, func(i int) gen.Expr { l := lits[types[i]]; return l[i%len(l)] })
			for pi := range c01Positions {
				p := &c01Positions[pi]
				if !p.closed {
					continue
				}
				if p.name == "take" && containsCall(ctree, "count", "countif", "now") {
					continue
				}
				for _, m := range []gen.ParenMode{gen.Minimal, gen.Redundant} {
					c01Check(w, st, c01Case{src: p.build(gen.ExprText(gen.WrapRoot(ctree, m))), pos: p, tree: ctree})
				}
			}
		}
	}
}

func containsCall(e gen.Expr, names ...string) bool {
	found := false
	var rec func(e gen.Expr)
	rec = func(e gen.Expr) {
		switch e := e.(type) {
		case *gen.Paren:
			rec(e.X)
		case *gen.Unary:
			rec(e.X)
		case *gen.Binary:
			rec(e.X)
			rec(e.Y)
		case *gen.In:
			rec(e.X)
			for _, v := range e.Vals {
				rec(v)
			}
		case *gen.Index:
			rec(e.X)
			rec(e.I)
		case *gen.Call:
			for _, n := range names {
				if e.Func == n {
					found = true
				}
			}
			for _, a := range e.Args {
				rec(a)
			}
		}
	}
	rec(e)
	return found
}

// c01LeafKinds: trees with <= 2 internal nodes with every combination of leaf kinds.
func c01LeafKinds(w *run.Worker, st *c01State, shapes *gen.Shapes, n int) {
	type lk struct {
		e   gen.Expr
		col *typedLeaf
	}
	kinds := []lk{
		{gen.Col("na"), &typedLeaf{"na", tNum}},
		{gen.Col("sa"), &typedLeaf{"sa", tStr}},
		{gen.Col("ra"), &typedLeaf{"ra", tArr}},
		{gen.QCol("q c"), &typedLeaf{"q c", tNum}},
		{&gen.Name{Parts: []gen.Ident{{Name: "t"}, {Name: "nb"}}}, &typedLeaf{"t.nb", tNum}},
		{gen.NumLit("1", "1"), nil},
		{gen.NumLit("0.1", "0.1"), nil},
		{gen.NumLit("007", "7"), nil},
		{gen.NumLit("0x10", "16"), nil},
		{gen.StrLit("x"), nil},
		{&gen.Lit{Kind: gen.Str, Text: `"it's"`, Value: "it's"}, nil},
		{gen.Col("true"), nil},
		{gen.Col("false"), nil},
		{gen.Col("null"), nil},
	}
	if n == 2 {
		kinds = []lk{kinds[0], kinds[1], kinds[2], kinds[5], kinds[9], kinds[13]}
	}
	where := &c01Positions[0]
	shapes.Level(n, func(sh gen.Expr) bool {
		nl := gen.CountLeaves(sh)
		if nl > 3 {
			return true
		}
		idx := make([]int, nl)
		for {
			var leaves []typedLeaf
			seen := map[string]bool{}
			tree := gen.Instantiate(sh, func(i int) gen.Expr {
				k := kinds[idx[i]]
				if k.col != nil && !seen[k.col.name] {
					seen[k.col.name] = true
					leaves = append(leaves, *k.col)
				}
				return k.e
			})
			for _, m := range []gen.ParenMode{gen.Minimal, gen.Redundant} {
				c01Check(w, st, c01Case{src: where.build(gen.ExprText(gen.WrapRoot(tree, m))), pos: where, tree: tree, leaves: leaves})
			}
			j := 0
			for j < nl {
				idx[j]++
				if idx[j] < len(kinds) {
					break
				}
				idx[j] = 0
				j++
			}
			if j == nl || w.Stopped() {
				break
			}
		}
		return !w.Stopped()
	})
}

func c01Replay(w *run.Worker, v *run.Viol) {
	if v.Check == "expr-terminates" {
		w.Begin("expr-terminates", v.Source)
		sql, err := pql.Compile(v.Source)
		if err != nil {
			w.Fail(v.Sig, v.Source, err.Error(), nil)
		} else if _, _, perr := sqlx.ParseStatement(sql, sqlx.ClickHouse); perr != nil {
			w.Fail(v.Sig, v.Source, perr.Error(), nil)
		}
		return
	}
	posName, _ := v.Extra["pos"].(string)
	exprText, _ := v.Extra["expr"].(string)
	tree, err := gen.ReadExpr(exprText)
	if err != nil {
		w.Fail("replay-unreadable", v.Source, err.Error(), nil)
		return
	}
	var leaves []typedLeaf
	if ln, ok := v.Extra["leaves"].([]any); ok {
		for i := 0; i+1 < len(ln); i += 2 {
			name, _ := ln[i].(string)
			t := 0
			switch x := ln[i+1].(type) {
			case float64:
				t = int(x)
			case int:
				t = x
			}
			leaves = append(leaves, typedLeaf{name, leafType(t)})
		}
	}
	for pi := range c01Positions {
		if c01Positions[pi].name == posName {
			st := &c01State{in: sem.NewInterner(), thor: true}
			c01Check(w, st, c01Case{src: v.Source, pos: &c01Positions[pi], tree: tree, leaves: leaves})
			st.thor = false
			c01Check(w, st, c01Case{src: v.Source, pos: &c01Positions[pi], tree: tree, leaves: leaves})
		}
	}
}
