package main

import (
	"fmt"
	"os"
	"regexp"
	"strings"

	"github.com/runreveal/pql"
	"verif/harness/gen"
	"verif/harness/rel"
	"verif/harness/run"
	"verif/harness/sem"
	"verif/harness/sqlx"
)

func init() {
	register("C02", "model_checking", c02Main, c02Replay)
	c05Pipelines = func(r *run.Runner) map[string]any {
		d := 3
		if r.Thorough() {
			d = 4
		}
		n := forEachSequence(r, "operator-sequences", d, c02Variants(false), func(w *run.Worker, p *gen.Pipeline, src string) {
			c05One(w, src)
		})
		return map[string]any{"depth": d, "sequences": n}
	}
}

var plainIdent = regexp.MustCompile(`^[A-Za-z_][A-Za-z0-9_]*$`)

func colRef(name string) *gen.Name {
	if plainIdent.MatchString(name) && name != "by" && name != "in" && name != "and" && name != "or" {
		return gen.Col(name)
	}
	return gen.QCol(name)
}

func colIdent(name string) *gen.Ident {
	if plainIdent.MatchString(name) {
		return &gen.Ident{Name: name}
	}
	return &gen.Ident{Name: name, Quoted: true}
}

// opVariant instantiates one operator from the current schema; depth index i makes fresh names.
type opVariant struct {
	name string
	make func(sch []string, i int) (gen.Op, []string)
}

func num(s string) *gen.Lit { return gen.NumLit(s, s) }

// canonicalOnly (with reduced) selects one or two canonical variants per operator kind for the deep sweep.
var canonicalOnly bool

func c02Variants(reduced bool) []opVariant {
	c12 := func(sch []string) (string, string) {
		if len(sch) == 1 {
			return sch[0], sch[0]
		}
		return sch[0], sch[1]
	}
	keep := func(sch []string) []string { return append([]string{}, sch...) }
	cnt := &gen.Call{Func: "count"}
	all := []opVariant{
		{"where-gt", func(sch []string, i int) (gen.Op, []string) {
			c1, _ := c12(sch)
			return &gen.Where{Kw: "where", Pred: &gen.Binary{Op: ">", X: colRef(c1), Y: num("1")}}, keep(sch)
		}},
		{"where-eq-literal", func(sch []string, i int) (gen.Op, []string) {
			c1, _ := c12(sch)
			return &gen.Where{Kw: "where", Pred: &gen.Binary{Op: "==", X: colRef(c1), Y: num("1")}}, keep(sch)
		}},
		{"where-notnull", func(sch []string, i int) (gen.Op, []string) {
			_, c2 := c12(sch)
			return &gen.Where{Kw: "where", Pred: &gen.Call{Func: "isnotnull", Args: []gen.Expr{colRef(c2)}}}, keep(sch)
		}},
		{"where-or", func(sch []string, i int) (gen.Op, []string) {
			// a predicate whose outermost operator binds more loosely than the `and` a compiler may join filters with
			c1, c2 := c12(sch)
			return &gen.Where{Kw: "where", Pred: &gen.Binary{Op: "or", X: &gen.Binary{Op: ">", X: colRef(c1), Y: num("1")}, Y: &gen.Binary{Op: "==", X: colRef(c2), Y: num("2")}}}, keep(sch)
		}},
		{"filter-ne", func(sch []string, i int) (gen.Op, []string) {
			c1, _ := c12(sch)
			return &gen.Where{Kw: "filter", Pred: &gen.Binary{Op: "!=", X: colRef(c1), Y: num("2")}}, keep(sch)
		}},
		{"project-swap-order", func(sch []string, i int) (gen.Op, []string) {
			c1, c2 := c12(sch)
			if c1 == c2 {
				return &gen.Project{Cols: []gen.Column{{Name: colIdent(c1)}}}, []string{c1}
			}
			return &gen.Project{Cols: []gen.Column{{Name: colIdent(c2)}, {Name: colIdent(c1)}}}, []string{c2, c1}
		}},
		{"project-identity", func(sch []string, i int) (gen.Op, []string) {
			c1, c2 := c12(sch)
			if c1 == c2 {
				return &gen.Project{Cols: []gen.Column{{Name: colIdent(c1)}}}, []string{c1}
			}
			return &gen.Project{Cols: []gen.Column{{Name: colIdent(c1)}, {Name: colIdent(c2)}}}, []string{c1, c2}
		}},
		{"project-rename", func(sch []string, i int) (gen.Op, []string) {
			c1, _ := c12(sch)
			n := fmt.Sprintf("n%d", i)
			return &gen.Project{Cols: []gen.Column{{Name: colIdent(n), X: colRef(c1)}}}, []string{n}
		}},
		{"project-swap-names", func(sch []string, i int) (gen.Op, []string) {
			c1, c2 := c12(sch)
			if c1 == c2 {
				return nil, nil
			}
			return &gen.Project{Cols: []gen.Column{{Name: colIdent(c1), X: colRef(c2)}, {Name: colIdent(c2), X: colRef(c1)}}}, []string{c1, c2}
		}},
		{"extend", func(sch []string, i int) (gen.Op, []string) {
			c1, _ := c12(sch)
			n := fmt.Sprintf("e%d", i)
			return &gen.Extend{Cols: []gen.Column{{Name: colIdent(n), X: &gen.Binary{Op: "+", X: colRef(c1), Y: num("1")}}}}, append(keep(sch), n)
		}},
		{"summarize-count-by", func(sch []string, i int) (gen.Op, []string) {
			c1, _ := c12(sch)
			n := fmt.Sprintf("n%d", i)
			return &gen.Summarize{Cols: []gen.Column{{Name: colIdent(n), X: cnt}}, By: []gen.Column{{X: colRef(c1)}}, HasBy: true}, []string{gen.ExprText(colRef(c1)), n}
		}},
		{"summarize-max", func(sch []string, i int) (gen.Op, []string) {
			_, c2 := c12(sch)
			n := fmt.Sprintf("m%d", i)
			return &gen.Summarize{Cols: []gen.Column{{Name: colIdent(n), X: &gen.Call{Func: "max", Args: []gen.Expr{colRef(c2)}}}}}, []string{n}
		}},
		{"summarize-by", func(sch []string, i int) (gen.Op, []string) {
			c1, _ := c12(sch)
			return &gen.Summarize{By: []gen.Column{{X: colRef(c1)}}, HasBy: true}, []string{gen.ExprText(colRef(c1))}
		}},
		{"summarize-count", func(sch []string, i int) (gen.Op, []string) {
			return &gen.Summarize{Cols: []gen.Column{{X: cnt}}}, []string{gen.ExprText(cnt)}
		}},
		{"sort", func(sch []string, i int) (gen.Op, []string) {
			c1, _ := c12(sch)
			return &gen.Sort{Kw: "sort", Terms: []gen.SortTerm{{X: colRef(c1)}}}, keep(sch)
		}},
		{"sort-asc", func(sch []string, i int) (gen.Op, []string) {
			c1, _ := c12(sch)
			return &gen.Sort{Kw: "sort", Terms: []gen.SortTerm{{X: colRef(c1), Dir: "asc"}}}, keep(sch)
		}},
		{"order-two", func(sch []string, i int) (gen.Op, []string) {
			c1, c2 := c12(sch)
			return &gen.Sort{Kw: "order", Terms: []gen.SortTerm{{X: colRef(c2), Dir: "desc", Nulls: "first"}, {X: colRef(c1), Dir: "asc"}}}, keep(sch)
		}},
		{"sort-nulls-first", func(sch []string, i int) (gen.Op, []string) {
			c1, _ := c12(sch)
			return &gen.Sort{Kw: "sort", Terms: []gen.SortTerm{{X: colRef(c1), Nulls: "first"}}}, keep(sch)
		}},
		{"sort-neg", func(sch []string, i int) (gen.Op, []string) {
			c1, _ := c12(sch)
			return &gen.Sort{Kw: "sort", Terms: []gen.SortTerm{{X: &gen.Unary{Op: "-", X: colRef(c1)}, Dir: "asc", Nulls: "last"}}}, keep(sch)
		}},
		{"project-mixed", func(sch []string, i int) (gen.Op, []string) {
			c1, c2 := c12(sch)
			n := fmt.Sprintf("x%d", i)
			return &gen.Project{Cols: []gen.Column{{Name: colIdent(c1)}, {Name: colIdent(n), X: &gen.Binary{Op: "+", X: colRef(c2), Y: num("1")}}}}, []string{c1, n}
		}},
		{"extend-two", func(sch []string, i int) (gen.Op, []string) {
			c1, c2 := c12(sch)
			n, m := fmt.Sprintf("f%d", i), fmt.Sprintf("g%d", i)
			return &gen.Extend{Cols: []gen.Column{{Name: colIdent(n), X: &gen.Binary{Op: "*", X: colRef(c1), Y: num("2")}}, {Name: colIdent(m), X: &gen.Call{Func: "isnull", Args: []gen.Expr{colRef(c2)}}}}}, append(keep(sch), n, m)
		}},
		{"summarize-two-aggs", func(sch []string, i int) (gen.Op, []string) {
			c1, c2 := c12(sch)
			n, m := fmt.Sprintf("n%d", i), fmt.Sprintf("s%d", i)
			return &gen.Summarize{Cols: []gen.Column{{Name: colIdent(n), X: cnt}, {Name: colIdent(m), X: &gen.Call{Func: "sum", Args: []gen.Expr{colRef(c2)}}}}, By: []gen.Column{{Name: colIdent("k" + fmt.Sprint(i)), X: colRef(c1)}}, HasBy: true}, []string{"k" + fmt.Sprint(i), n, m}
		}},
		{"where-and", func(sch []string, i int) (gen.Op, []string) {
			c1, c2 := c12(sch)
			return &gen.Where{Kw: "where", Pred: &gen.Binary{Op: "and", X: &gen.Binary{Op: ">=", X: colRef(c1), Y: num("1")}, Y: &gen.Call{Func: "isnotnull", Args: []gen.Expr{colRef(c2)}}}}, keep(sch)
		}},
		{"sort-two-keys", func(sch []string, i int) (gen.Op, []string) {
			c1, c2 := c12(sch)
			return &gen.Sort{Kw: "sort", Terms: []gen.SortTerm{{X: colRef(c1), Dir: "desc"}, {X: colRef(c2), Dir: "asc", Nulls: "last"}}}, keep(sch)
		}},
		{"top-nulls-first", func(sch []string, i int) (gen.Op, []string) {
			c1, _ := c12(sch)
			return &gen.Top{N: num("2"), By: gen.SortTerm{X: colRef(c1), Dir: "desc", Nulls: "first"}}, keep(sch)
		}},
		{"take-1", func(sch []string, i int) (gen.Op, []string) { return &gen.Take{Kw: "take", N: num("1")}, keep(sch) }},
		{"limit-2", func(sch []string, i int) (gen.Op, []string) { return &gen.Take{Kw: "limit", N: num("2")}, keep(sch) }},
		{"take-10", func(sch []string, i int) (gen.Op, []string) { return &gen.Take{Kw: "take", N: num("10")}, keep(sch) }},
		{"take-0", func(sch []string, i int) (gen.Op, []string) { return &gen.Take{Kw: "take", N: num("0")}, keep(sch) }},
		{"top-1", func(sch []string, i int) (gen.Op, []string) {
			c1, _ := c12(sch)
			return &gen.Top{N: num("1"), By: gen.SortTerm{X: colRef(c1)}}, keep(sch)
		}},
		{"top-2-asc", func(sch []string, i int) (gen.Op, []string) {
			_, c2 := c12(sch)
			return &gen.Top{N: num("2"), By: gen.SortTerm{X: colRef(c2), Dir: "asc"}}, keep(sch)
		}},
		{"count", func(sch []string, i int) (gen.Op, []string) { return &gen.Count{}, []string{"count()"} }},
		{"as", func(sch []string, i int) (gen.Op, []string) {
			return &gen.As{Name: gen.Ident{Name: fmt.Sprintf("X%d", i)}}, keep(sch)
		}},
		{"render", func(sch []string, i int) (gen.Op, []string) {
			for _, c := range sch {
				if c == "render_type" {
					return nil, nil // a second render would duplicate column names
				}
			}
			return &gen.Render{Chart: gen.Ident{Name: "chart"}}, append(keep(sch), "render_type")
		}},
		{"render-props", func(sch []string, i int) (gen.Op, []string) {
			for _, c := range sch {
				if c == "render_type" {
					return nil, nil
				}
			}
			return &gen.Render{Chart: gen.Ident{Name: "chart"}, With: true, Props: []gen.Prop{{Name: gen.Ident{Name: "title"}, Value: &gen.Lit{Kind: gen.Str, Text: `"t"`, Value: "t"}}}},
				append(keep(sch), "render_type", "render_prop_title")
		}},
	}
	if !reduced {
		return all
	}
	if canonicalOnly {
		keepNames := map[string]bool{"where-gt": true, "project-rename": true, "extend": true, "summarize-count-by": true,
			"sort-asc": true, "take-1": true, "top-2-asc": true, "count": true, "as": true, "render": true, "limit-2": true, "sort": true}
		var out []opVariant
		for _, v := range all {
			if keepNames[v.name] {
				out = append(out, v)
			}
		}
		return out
	}
	keepNames := map[string]bool{"where-gt": true, "project-rename": true, "project-swap-names": true, "extend": true, "summarize-count-by": true, "summarize-max": true,
		"sort": true, "sort-asc": true, "take-1": true, "limit-2": true, "take-10": true, "project-identity": true, "top-1": true, "count": true, "as": true, "render": true}
	var out []opVariant
	for _, v := range all {
		if keepNames[v.name] {
			out = append(out, v)
		}
	}
	return out
}

type seqItem struct {
	ops []gen.Op
	sch []string
}

// forEachSequence enumerates every operator sequence of length 1..depth (schema
// aware) from base table T(a, b); work items are the two-operator prefixes.
func forEachSequence(r *run.Runner, name string, depth int, variants []opVariant, fn func(w *run.Worker, p *gen.Pipeline, src string)) int64 {
	base := []string{"a", "b"}
	var prefixes []seqItem
	var total int64
	var short []seqItem
	for _, v1 := range variants {
		op1, s1 := v1.make(base, 1)
		if op1 == nil {
			continue
		}
		short = append(short, seqItem{[]gen.Op{op1}, s1})
		if depth < 2 {
			continue
		}
		for _, v2 := range variants {
			op2, s2 := v2.make(s1, 2)
			if op2 == nil {
				continue
			}
			prefixes = append(prefixes, seqItem{[]gen.Op{op1, op2}, s2})
		}
	}
	emit := func(w *run.Worker, ops []gen.Op) {
		p := &gen.Pipeline{Source: gen.Ident{Name: "T"}, Ops: ops}
		pr := gen.Print(gen.Single(p))
		fn(w, p, pr.Layout(pr.Uniform(" ")).Source)
	}
	counts := make([]int64, len(prefixes)+1)
	r.Sweep(name, int64(len(prefixes))+1, func(w *run.Worker, item int64) {
		if item == int64(len(prefixes)) {
			emit(w, nil)
			for _, s := range short {
				emit(w, s.ops)
			}
			counts[item] = int64(len(short)) + 1
			return
		}
		var rec func(ops []gen.Op, sch []string, d int)
		rec = func(ops []gen.Op, sch []string, d int) {
			if w.Stopped() {
				return
			}
			emit(w, ops)
			counts[item]++
			if d == depth {
				return
			}
			for _, v := range variants {
				op, s := v.make(sch, d+1)
				if op == nil {
					continue
				}
				rec(append(append([]gen.Op{}, ops...), op), s, d+1)
			}
		}
		rec(prefixes[item].ops, prefixes[item].sch, 2)
	})
	for _, c := range counts {
		total += c
	}
	return total
}

// smallTables returns every row list of at most maxRows rows over the given value lists per column.
func smallTables(cols []string, doms [][]sem.Val, maxRows int) []*rel.Table {
	var rows [][]sem.Val
	var recRow func(i int, cur []sem.Val)
	recRow = func(i int, cur []sem.Val) {
		if i == len(doms) {
			rows = append(rows, append([]sem.Val{}, cur...))
			return
		}
		for _, v := range doms[i] {
			recRow(i+1, append(cur, v))
		}
	}
	recRow(0, nil)
	var out []*rel.Table
	var rec func(cur [][]sem.Val)
	rec = func(cur [][]sem.Val) {
		out = append(out, &rel.Table{Cols: cols, Rows: append([][]sem.Val{}, cur...)})
		if len(cur) == maxRows {
			return
		}
		for _, r := range rows {
			rec(append(cur, r))
		}
	}
	rec(nil)
	return out
}

type relState struct{ in *sem.Interner }

// relCheck compiles the pipeline source and compares both evaluators on every database.
func relCheck(w *run.Worker, st *relState, prop string, p *gen.Pipeline, src string, dbs []rel.DB, extra map[string]any) {
	w.Begin("sql-vs-pipeline", src)
	var sql string
	var err error
	if !w.Try(src, func() { sql, err = pql.Compile(src) }) {
		return
	}
	if err != nil {
		w.Fail("rejected:"+seqSig(p), src, fmt.Sprintf("well-formed pipeline rejected: %v", err), extra)
		return
	}
	stmt, _, perr := sqlx.ParseStatement(sql, sqlx.ClickHouse)
	if perr != nil {
		w.Fail("invalid-sql", src, fmt.Sprintf("output is not valid SQL: %v\nsql: %s", perr, sql), extra)
		return
	}
	w.Nontrivial()
	w.Count("states", 1)
	for di, db := range dbs {
		want, werr := rel.RunPipeline(p, db, st.in)
		if werr != nil {
			w.Count("reference_undefined", 1)
			if f, ok := extra["family"].(string); ok {
				w.Count("reference_undefined:"+f, 1)
				if os.Getenv("VERIF_DEBUG_UNDEF") != "" && di == 1 {
					fmt.Fprintf(os.Stderr, "undefined: %s: %v\n", src, werr)
				}
			}
			continue
		}
		w.Count("transitions", int64(len(p.Ops))+countJoinOps(p))
		w.Count("traces_validated", 1)
		got, gerr := rel.RunSQL(stmt, db, st.in)
		if gerr != nil {
			w.Fail("sql-fails:"+seqSig(p), src, fmt.Sprintf("the pipeline is defined on database #%d %s (result %s) but the emitted SQL cannot be evaluated: %v\nsql: %s", di, dbText(db), want, gerr, sql), extra)
			return
		}
		if msg := rel.Compare(want, got); msg != "" {
			w.Fail("result:"+seqSig(p), src, fmt.Sprintf("on database #%d %s: %s\nsql: %s", di, dbText(db), msg, sql), extra)
			return
		}
	}
}

func countJoinOps(p *gen.Pipeline) int64 {
	var n int64
	for _, op := range p.Ops {
		if j, ok := op.(*gen.Join); ok {
			n += int64(len(j.Right.Ops)) + countJoinOps(j.Right)
		}
	}
	return n
}

func dbText(db rel.DB) string {
	var names []string
	for k := range db {
		names = append(names, k)
	}
	sortStrings(names)
	var sb strings.Builder
	for _, k := range names {
		sb.WriteString(k + db[k].String() + " ")
	}
	return sb.String()
}

func sortStrings(s []string) {
	for i := 1; i < len(s); i++ {
		for j := i; j > 0 && s[j] < s[j-1]; j-- {
			s[j], s[j-1] = s[j-1], s[j]
		}
	}
}

// seqSig names the operator sequence by production names (last three operators).
func seqSig(p *gen.Pipeline) string {
	var names []string
	for _, op := range p.Ops {
		names = append(names, gen.OpName(op))
	}
	if len(names) > 3 {
		names = names[len(names)-3:]
	}
	return strings.Join(names, "|")
}

func c02DBs(maxRows int) []rel.DB {
	tabs := smallTables([]string{"a", "b"}, [][]sem.Val{{sem.VNull, sem.N(1), sem.N(2)}, {sem.N(1), sem.N(2)}}, maxRows)
	var out []rel.DB
	for _, t := range tabs {
		out = append(out, rel.DB{"T": t})
	}
	return out
}

func c02Main(r *run.Runner) {
	r.Rule = "explicit-state exploration of the subquery splitter: every operator sequence of length <= d over 35 schema-aware operator variants (all eleven operators, from base table T(a,b)) is compiled by the real compiler; the emitted SQL is read by the independent reader and executed by a list-semantics SQL evaluator on EVERY database instance (all row lists of <= m rows over a in {NULL,1,2}, b in {1,2}); " +
		"plus a deep-and-narrow sweep (d+2 operators over canonical variants), wide families (k columns / terms / aggregates / keys / operators for every k in 1..65, thorough ..257), every spelling of sort terms (direction x nulls clause x defaults) and of the two-keyword operators, and programs whose names coincide (alias = table, = dropped column, = as-name, = implicit column); the result must equal what a left-to-right interpreter of the source pipeline returns: same column names in order, same rows, same order wherever a sort determines it. states = operator sequences explored (each is a distinct state of the splitter: last operator kind, pending sort/take, names in scope), transitions = operator applications, traces validated = (sequence, database) executions compared"
	r.Assume = []string{"list semantics: FROM/CTE order is preserved, ORDER BY is stable, GROUP BY yields groups in first-appearance order", "aggregates and scalar primitives are those of package sem"}
	d, m := 3, 3
	if r.Thorough() {
		d, m = 4, 3
	}
	dbs := c02DBs(m)
	states := make([]*relState, 64)
	get := func(w *run.Worker) *relState {
		if states[w.ID] == nil {
			states[w.ID] = &relState{in: sem.NewInterner()}
		}
		return states[w.ID]
	}
	small := c02DBs(2)
	n := forEachSequence(r, "operator-sequences", d, c02Variants(false), func(w *run.Worker, p *gen.Pipeline, src string) {
		if len(p.Ops) == d && !r.Thorough() {
			// quick: the deepest level on all tables of <= 2 rows, shorter sequences on all tables of <= 3 rows
			relCheck(w, get(w), "C02", p, src, small, nil)
			return
		}
		relCheck(w, get(w), "C02", p, src, dbs, nil)
	})
	// every spelling of a sort term (direction x nulls clause, defaults included) on two keys, with and without
	// operators before and after; every spelling of the operators that have two keywords
	var forms []string
	for _, d := range []string{"", " asc", " desc"} {
		for _, nl := range []string{"", " nulls first", " nulls last"} {
			forms = append(forms, d+nl)
		}
	}
	var spell []string
	for _, pre := range []string{"T", "T | where b > 0", "T | extend c = a + b", "T | take 2", "T | sort by b asc"} {
		for _, suf := range []string{"", " | take 2", " | where b < 2", " | project b, a", " | summarize n = count() by a", " | top 2 by b asc nulls last", " | limit 1 | count"} {
			for _, f1 := range forms {
				for _, f2 := range forms {
					spell = append(spell, pre+" | sort by a"+f1+", b"+f2+suf, pre+" | order by b"+f2+", a"+f1+suf)
				}
				spell = append(spell, pre+" | top 2 by a"+f1+suf, pre+" | order by a + b"+f1+", b"+suf)
			}
			for _, kw := range []string{"where", "filter"} {
				for _, lim := range []string{"take", "limit"} {
					for _, so := range []string{"sort", "order"} {
						spell = append(spell, pre+" | "+kw+" a > 0 | "+so+" by b asc, a | "+lim+" 2"+suf, pre+" | "+lim+" 2 | "+so+" by a | "+kw+" b > 1"+suf)
					}
				}
			}
		}
	}
	r.Sweep("spellings", int64(len(spell)), func(w *run.Worker, item int64) {
		p, err := gen.ReadPipeline(spell[item])
		if err != nil {
			w.HarnessError(fmt.Sprintf("spelling does not read: %v\n%s", err, spell[item]))
			return
		}
		pr := gen.Print(gen.Single(p))
		relCheck(w, get(w), "C02", p, pr.Layout(pr.Uniform(" ")).Source, small, map[string]any{"family": "spellings"})
	})
	// names that coincide: aliases named like the table, like dropped or earlier columns, like `as` names, like implicit columns
	coincide := []string{
		"T | project T = a | where T > 1", "T | as T | where a > 1 | project b", "T | extend T = b | sort by T asc, a | take 2",
		"T | project b | extend a = b + 1 | where a > 2", "T | project a | extend b = a + 1 | project a = b, b = a | sort by a asc",
		"T | project x = a | extend y = x | project x = y | where x > 1", "T | summarize n = count() by a | summarize n = max(n) by a | sort by a",
		"T | summarize a = count() by b | project a | sort by a", "T | summarize b = max(b) by a | where b > 1 | project a, b | sort by a",
		"T | as X | where a > 0 | as X | count", "T | as X | project X = a | where X > 1", "T | as a | where a > 1",
		"T | summarize count() by a | summarize count() by a | sort by a", "T | summarize max(a) by b | summarize max(b) by m = `max ( a )` | sort by m",
		"T | extend `count()` = a | summarize count() by b | sort by b", "T | count | extend a = `count()` + 1 | project a, `count()`",
		"T | extend `a + 1` = b | extend a + 1 | project a, b", "T | summarize x = max(a), y = max(a) by b | where x == y | project b | sort by b",
		"T | project a, c = a | where c > 1 | project c, a | sort by a | take 1", "T | extend c = a | project-away-not-an-operator",
		"T | project n1 = a | project n2 = n1 | project n1 = n2 | sort by n1 | take 2", "T | sort by a | project a = b | sort by a asc | take 2",
		"T | top 2 by a | project a = b, c = a | top 1 by a", "T | where a > 0 | project b = a, a = b | where a > 1 | project b",
		"T | summarize n = count() by a | project a = n, n = a | sort by n", "T | extend sort = a, by = b | sort by sort asc, `by` | take 2",
		"T | project `where` = a, `take` = b | where `where` > 1 | take 1", "T | extend x = a | extend x2 = x + 1 | extend x3 = x2 + x | project x3, x | sort by x3",
		"T | sort by a | extend a = 0 - a | take 2 | project b", "T | sort by b asc, a | extend b = a | take 2 | count",
		// a name that is defined, consumed without being exported, and defined again; a key fixed by an equality and then renamed
		"T | extend d = a - b | project a, b, r = d * 2 | extend d = r + b | where d > 1 | sort by d asc | take 3",
		"T | extend d = a + 1 | project r = d | extend d = r * 2 | project d, r | sort by d", "T | extend d = a | summarize m = max(d) by b | extend d = m + b | where d > 2 | project d",
		"T | project d = a, b | project e = d + b | extend d = e - 1 | sort by d asc | take 2", "T | extend d = a | project a, b | extend d = b | where d > 1 | count",
		"T | where a == 1 and b > 0 | project a = b, c = a | sort by a asc, c | take 2", "T | where a == 2 | project a = b | top 1 by a asc", "T | where b == 1 | extend c = a | project b = c, a | sort by b asc | take 2",
		"T | where a == 1 | sort by a | project a = b | sort by a | take 2", "T | where a == 1 | summarize a = max(b) by k = a | sort by a | take 1",
	}
	r.Sweep("coinciding-names", int64(len(coincide)), func(w *run.Worker, item int64) {
		p, err := gen.ReadPipeline(coincide[item])
		if err != nil {
			return // not in the reader's grammar (kept in the list as documentation of what is excluded)
		}
		pr := gen.Print(gen.Single(p))
		relCheck(w, get(w), "C02", p, pr.Layout(pr.Uniform(" ")).Source, dbs, map[string]any{"family": "coinciding-names"})
	})
	r.Extra["spellings"] = len(spell)
	wideDBs := c02DBs(2)
	if r.Thorough() {
		wideDBs = dbs
	}
	nw := c02Wide(r, get, wideDBs)
	r.Extra["wide"] = map[string]any{"programs": nw, "sizes": wideSizes(r.Thorough()), "databases": len(wideDBs)}
	var n2 int64
	{
		n2 = forEachSequence(r, "operator-sequences-reduced", d+1, c02Variants(true), func(w *run.Worker, p *gen.Pipeline, src string) {
			if len(p.Ops) == d+1 {
				relCheck(w, get(w), "C02", p, src, c02DBs(2), nil)
			}
		})
	}
	// deep and narrow: every sequence of d+2 operators over one or two canonical variants per operator kind
	canonicalOnly = true
	deep := c02Variants(true)
	canonicalOnly = false
	var deepDBs []rel.DB
	for i, db := range small {
		if i%2 == 0 || r.Thorough() {
			deepDBs = append(deepDBs, db)
		}
	}
	n3 := forEachSequence(r, "operator-sequences-deep", d+2, deep, func(w *run.Worker, p *gen.Pipeline, src string) {
		if len(p.Ops) >= d+1 {
			relCheck(w, get(w), "C02", p, src, deepDBs, nil)
		}
	})
	r.Extra["deep"] = map[string]any{"depth": d + 2, "variants": len(deep), "sequences": n3, "databases": len(deepDBs)}
	r.Extra["bounds"] = map[string]any{"depth": d, "variants": len(c02Variants(false)), "sequences": n, "databases": len(dbs), "max_rows": m,
		"reduced_depth": d + 1, "reduced_variants": len(c02Variants(true)), "reduced_sequences": n2}
	r.Sample("T | take 1 | sort by a | where a > 1")
	r.Sample("T | summarize n1 = count ( ) by a | sort by n1 | project n3 = a")
	finishMC(r)
}

// finishMC copies the model-checking counters into the evidence keys of that level.
func finishMC(r *run.Runner) {
	r.MC = true
}

func c02Replay(w *run.Worker, v *run.Viol) {
	p, err := gen.ReadPipeline(v.Source)
	if err != nil {
		w.Fail("replay-unreadable", v.Source, err.Error(), nil)
		return
	}
	dbs := c02DBs(3)
	if strings.Contains(v.Source, "join") {
		dbs = c03DBs(true)
	}
	relCheck(w, &relState{in: sem.NewInterner()}, v.Property, p, v.Source, dbs, nil)
}
