package main

import (
	"fmt"
	"verif/harness/gen"
	"verif/harness/rel"
	"verif/harness/run"
	"verif/harness/sem"
)

func init() { register("C03", "model_checking", c03Main, c02Replay) }

func lr(side, col string) gen.Expr { return &gen.Name{Parts: []gen.Ident{{Name: side}, {Name: col}}} }

func c03Parts() (prefixes [][]gen.Op, kinds []string, rights []*gen.Pipeline, conds [][]gen.Expr, suffixes [][]gen.Op) {
	gt := func(c string) gen.Op {
		return &gen.Where{Kw: "where", Pred: &gen.Binary{Op: ">", X: gen.Col(c), Y: num("1")}}
	}
	take1 := &gen.Take{Kw: "take", N: num("1")}
	sortBy := func(c string) gen.Op { return &gen.Sort{Kw: "sort", Terms: []gen.SortTerm{{X: gen.Col(c)}}} }
	proj := func(cs ...string) gen.Op {
		p := &gen.Project{}
		for _, c := range cs {
			p.Cols = append(p.Cols, gen.Column{Name: &gen.Ident{Name: c}})
		}
		return p
	}
	prefixes = [][]gen.Op{
		nil,
		{gt("x")},
		{take1},
		{sortBy("x"), take1},
		{proj("k", "x")},
		{&gen.Extend{Cols: []gen.Column{{Name: &gen.Ident{Name: "z"}, X: gen.Col("x")}}}},
		{&gen.As{Name: gen.Ident{Name: "A"}}},
		{&gen.Summarize{Cols: []gen.Column{{Name: &gen.Ident{Name: "x"}, X: &gen.Call{Func: "max", Args: []gen.Expr{gen.Col("x")}}}}, By: []gen.Column{{X: gen.Col("k")}}, HasBy: true}},
		{gt("x"), &gen.Sort{Kw: "sort", Terms: []gen.SortTerm{{X: gen.Col("x"), Dir: "asc"}}}},
	}
	kinds = []string{"", "inner", "innerunique", "leftouter"}
	tbl := func(n string, ops ...gen.Op) *gen.Pipeline {
		return &gen.Pipeline{Source: gen.Ident{Name: n}, Ops: ops}
	}
	rights = []*gen.Pipeline{
		tbl("R"),
		tbl("R", gt("y")),
		tbl("R", proj("k", "y")),
		tbl("R", take1),
		tbl("R", sortBy("y"), take1),
		tbl("R", &gen.As{Name: gen.Ident{Name: "Q"}}),
		tbl("R", &gen.Top{N: num("2"), By: gen.SortTerm{X: gen.Col("y")}}, take1),
		tbl("R", take1, sortBy("y")),
		tbl("R", &gen.Top{N: num("2"), By: gen.SortTerm{X: gen.Col("k")}}),
		tbl("R", &gen.Sort{Kw: "sort", Terms: []gen.SortTerm{{X: gen.Col("k"), Dir: "asc"}}}, &gen.Take{Kw: "take", N: num("2")}),
		// reads the name that the left prefix `as A` defines (undefined - and skipped - with other prefixes)
		tbl("A"),
		tbl("A", gt("x"), proj("k", "x")),
		tbl("R", &gen.Join{Right: tbl("C"), On: []gen.Expr{gen.Col("k")}}),
		tbl("R", gt("y"), &gen.Join{Kind: "inner", Right: tbl("C"), On: []gen.Expr{&gen.Binary{Op: "==", X: lr("$left", "k"), Y: lr("$right", "k")}}}, proj("k", "y")),
	}
	eq := func(a, b gen.Expr) gen.Expr { return &gen.Binary{Op: "==", X: a, Y: b} }
	conds = [][]gen.Expr{
		{gen.Col("k")},
		{eq(lr("$left", "k"), lr("$right", "k"))},
		{eq(lr("$right", "k"), lr("$left", "k"))},
		{eq(lr("$left", "x"), lr("$right", "y"))},
		{gen.Col("k"), &gen.Binary{Op: "<", X: lr("$left", "x"), Y: lr("$right", "y")}},
		{gen.Col("k"), &gen.Binary{Op: "!=", X: gen.Col("y"), Y: num("2")}},
		{eq(&gen.Paren{X: lr("$left", "k")}, lr("$right", "k")), &gen.Binary{Op: ">=", X: lr("$right", "y"), Y: lr("$left", "x")}},
		{gen.Col("k"), &gen.Binary{Op: ">", X: lr("$right", "y"), Y: num("1")}},
		{&gen.Binary{Op: ">", X: lr("$left", "x"), Y: num("1")}, gen.Col("k")},
		// an `and` group that mentions both sides, before / between other conditions
		{&gen.Binary{Op: "and", X: eq(lr("$left", "k"), lr("$right", "k")), Y: &gen.Binary{Op: "<=", X: lr("$left", "x"), Y: lr("$right", "y")}}, &gen.Binary{Op: "!=", X: lr("$right", "y"), Y: num("2")}},
		{&gen.Paren{X: &gen.Binary{Op: "and", X: eq(lr("$left", "x"), lr("$right", "y")), Y: &gen.Binary{Op: ">", X: lr("$right", "y"), Y: num("0")}}}, gen.Col("k"), &gen.Binary{Op: ">", X: lr("$left", "x"), Y: num("1")}},
		{gen.Col("k"), &gen.Binary{Op: "or", X: &gen.Binary{Op: "<", X: lr("$left", "x"), Y: lr("$right", "y")}, Y: eq(lr("$left", "x"), num("2"))}, &gen.Binary{Op: ">=", X: lr("$right", "y"), Y: num("1")}},
	}
	suffixes = [][]gen.Op{
		nil,
		{&gen.Count{}},
		{gt("y")},
		{&gen.Sort{Kw: "sort", Terms: []gen.SortTerm{{X: gen.Col("y"), Dir: "asc"}}}},
		{proj("x", "y")},
		{take1},
		{&gen.Sort{Kw: "sort", Terms: []gen.SortTerm{{X: gen.Col("y")}}}, &gen.Count{}},
		{&gen.Sort{Kw: "sort", Terms: []gen.SortTerm{{X: gen.Col("y"), Dir: "asc"}}}, &gen.Summarize{Cols: []gen.Column{{Name: &gen.Ident{Name: "n"}, X: &gen.Call{Func: "count"}}}, By: []gen.Column{{X: gen.Col("x")}}, HasBy: true}},
		{&gen.Join{Kind: "leftouter", Right: tbl("C"), On: []gen.Expr{eq(lr("$left", "x"), lr("$right", "w"))}}},
		{&gen.Join{Kind: "inner", Right: tbl("C", &gen.As{Name: gen.Ident{Name: "R2"}}, gt("w")), On: []gen.Expr{eq(lr("$left", "x"), lr("$right", "w"))}}, &gen.Count{}},
		{gt("y"), &gen.Join{Right: tbl("C", gt("w")), On: []gen.Expr{eq(lr("$left", "y"), lr("$right", "w"))}}, &gen.Count{}},
		// a second join directly followed by a row limit / sort / filter
		{&gen.Join{Kind: "leftouter", Right: tbl("C"), On: []gen.Expr{eq(lr("$left", "x"), lr("$right", "w"))}}, take1},
		{&gen.Join{Kind: "inner", Right: tbl("C"), On: []gen.Expr{eq(lr("$left", "y"), lr("$right", "w"))}}, take1},
		{&gen.Join{Kind: "leftouter", Right: tbl("C", gt("w")), On: []gen.Expr{eq(lr("$left", "x"), lr("$right", "w"))}}, &gen.Sort{Kw: "sort", Terms: []gen.SortTerm{{X: gen.Col("w")}, {X: gen.Col("x")}, {X: gen.Col("y")}}}, &gen.Take{Kw: "limit", N: num("2")}},
	}
	return
}

func c03DBs(thorough bool) []rel.DB {
	maxRows := 2
	kx := smallTables([]string{"k", "x"}, [][]sem.Val{{sem.VNull, sem.N(1), sem.N(2)}, {sem.N(1), sem.N(2)}}, maxRows)
	ky := smallTables([]string{"k", "y"}, [][]sem.Val{{sem.VNull, sem.N(1), sem.N(2)}, {sem.N(1), sem.N(2)}}, maxRows)
	cs := []*rel.Table{
		{Cols: []string{"k", "w"}, Rows: [][]sem.Val{{sem.N(1), sem.N(1)}, {sem.N(1), sem.N(2)}, {sem.VNull, sem.N(2)}}},
		{Cols: []string{"k", "w"}, Rows: [][]sem.Val{{sem.N(2), sem.N(2)}, {sem.N(2), sem.N(2)}, {sem.N(1), sem.N(1)}}},
	}
	var out []rel.DB
	i := 0
	for _, l := range kx {
		for _, r := range ky {
			if !thorough && (len(l.Rows)+len(r.Rows))%2 == 1 && i%3 != 0 {
				i++
				continue
			}
			out = append(out, rel.DB{"L": l, "R": r, "C": cs[i%2]})
			i++
		}
	}
	return out
}

// c03Programs lists the join programs (all = every combination; otherwise at most maxNonDefault non-default parts).
func c03Programs(all bool, maxNonDefault int) []*gen.Pipeline {
	prefixes, kinds, rights, conds, suffixes := c03Parts()
	var out []*gen.Pipeline
	for a := range prefixes {
		for k := range kinds {
			for b := range rights {
				for c := range conds {
					for d := range suffixes {
						nd := 0
						for _, x := range []int{a, k, b, c, d} {
							if x != 0 {
								nd++
							}
						}
						if !all && nd > maxNonDefault {
							continue
						}
						ops := append([]gen.Op{}, prefixes[a]...)
						ops = append(ops, &gen.Join{Kind: kinds[k], Right: rights[b], On: conds[c]})
						ops = append(ops, suffixes[d]...)
						out = append(out, &gen.Pipeline{Source: gen.Ident{Name: "L"}, Ops: ops})
					}
				}
			}
		}
	}
	return out
}

func c03Main(r *run.Runner) {
	r.Rule = "explicit-state exploration of join compilation: every program `L <prefix> | join [kind=K] (R <right>) on <cond> <suffix>` over 9 left prefixes x 4 kinds x 10 right-hand pipelines (two with nested joins) x 9 condition forms x 10 suffixes (two with a second join) - quick: all combinations with at most three non-default parts - is compiled; " +
		"plus wide families (joins with k conditions, sequences of k joins, right-hand sides nested k deep, k up to 65 / 17); the emitted SQL is executed by the list-semantics SQL evaluator on every pair of small tables L(k,x), R(k,y) (all row lists of <= 2 rows over k in {NULL,1,2}, x,y in {1,2}) and C(k,w), and compared with the reference join semantics applied by the pipeline interpreter. states = programs, transitions = operator applications, traces validated = (program, database) executions"
	r.Assume = []string{"result columns of a join = left columns then right columns", "references to a column name present on both sides after the join are not generated; programs whose reference evaluation is undefined (ambiguous name) are skipped and counted"}
	prefixes, kinds, rights, conds, suffixes := c03Parts()
	type prog struct{ a, k, b, c, d int }
	var progs []prog
	for a := range prefixes {
		for k := range kinds {
			for b := range rights {
				for c := range conds {
					for d := range suffixes {
						nd := 0
						for _, x := range []int{a, k, b, c, d} {
							if x != 0 {
								nd++
							}
						}
						if r.Thorough() || nd <= 3 {
							progs = append(progs, prog{a, k, b, c, d})
						}
					}
				}
			}
		}
	}
	dbs := c03DBs(r.Thorough())
	states := make([]*relState, 64)
	r.Sweep("join-programs", int64(len(progs)), func(w *run.Worker, item int64) {
		if states[w.ID] == nil {
			states[w.ID] = &relState{in: sem.NewInterner()}
		}
		pg := progs[item]
		ops := append([]gen.Op{}, prefixes[pg.a]...)
		ops = append(ops, &gen.Join{Kind: kinds[pg.k], Right: rights[pg.b], On: conds[pg.c]})
		ops = append(ops, suffixes[pg.d]...)
		p := &gen.Pipeline{Source: gen.Ident{Name: "L"}, Ops: ops}
		pr := gen.Print(gen.Single(p))
		relCheck(w, states[w.ID], "C03", p, pr.Layout(pr.Uniform(" ")).Source, dbs, nil)
	})
	// names that coincide: an `as` name equal to a join key or a column of the condition, the same table joined twice
	// (identical right-hand sides), a right-hand side that is the left table itself
	coincide := []string{
		"L | join kind=inner (R | as k) on k | project x, y", "L | join kind=inner (R | as y) on $left.x == $right.y | project x, y",
		"L | join kind=inner (C | as x) on $left.x == $right.w | project x | join kind=inner (C | as w) on $left.x == $right.w | count",
		"L | join kind=inner (C | as x) on $left.x == $right.w | project x, c1 = w | join kind=leftouter (C | as w) on $left.x == $right.w | project x, c1, w | sort by x, c1, w",
		"L | join kind=inner (R | project rk = k, y | as rk) on $left.k == $right.rk | project k, x, y | join kind=inner (R | project rk = k, y2 = y | as k) on $left.k == $right.rk | project x, y, y2",
		"L | as L2 | join kind=inner (L2 | project k2 = k, x2 = x) on $left.k == $right.k2 | project x, x2", "L | join kind=leftouter (L | project k2 = k, x2 = x) on $left.x == $right.x2 | project k, k2",
		"L | project k, x | as x | join kind=inner (R) on k | project x, y", "L | extend y0 = x | join kind=inner (R | extend x0 = y) on $left.y0 == $right.x0 | project x, y, y0, x0",
		"L | join kind=inner (R | where y > 0) on k | project x, y | join kind=inner (R | where y > 0 | project rk = k, y3 = y) on $left.y == $right.y3 | project x, y, rk",
		"L | where x > 0 | join kind=inner (R) on k | project x, y | where x > 0 | join kind=leftouter (C | project w) on $left.x == $right.w | take 1",
		"L | where x > 0 | join kind=innerunique (R) on k | project x, y | join kind=leftouter (C | project w) on $left.y == $right.w | limit 1",
		"L | extend z = x | join kind=inner (R | project rk = k, y) on $left.k == $right.rk | join kind=leftouter (C | project ck = k, w) on $left.k == $right.ck | take 1 | project x, y, w",
		// operators directly after a join that sort by a column and then define a column of that name again
		"L | join kind=inner (R | project rk = k, y) on $left.k == $right.rk | sort by y desc | extend y = 0 - y | take 1",
		"L | join kind=leftouter (R | project rk = k, y) on $left.k == $right.rk | sort by x asc | extend x = y | take 2 | project rk",
		"L | join kind=inner (R | project rk = k, y) on $left.k == $right.rk | where y > 0 | sort by y | extend z = 0 - y | take 1",
		"L | join (R | project rk = k, y) on $left.k == $right.rk | extend y2 = y * 2 | where y2 > 2 | sort by y2 asc | take 1",
		// an `as` name whose only reader is a join nested inside another right-hand side
		"L | where x > 0 | as T2 | where x > 1 | join kind=inner (R | project rk = k, y | join kind=leftouter (T2 | project k2 = k, x2 = x) on $left.rk == $right.k2 | project rk, y, x2) on $left.k == $right.rk | project x, y, x2 | sort by x, y, x2",
		"L | as T3 | project k, x | join (R | project rk = k, y | join kind=inner (C | project ck = k, w | join kind=inner (T3 | project k3 = k, x3 = x) on $left.ck == $right.k3 | project ck, w, x3) on $left.rk == $right.ck | project rk, y, w, x3) on $left.k == $right.rk | project x, y, w, x3 | sort by x, y, w, x3",
		// a named join result that is limited / sorted / filtered afterwards and read again in full by a later right-hand side
		"L | join kind=inner (R | project rk = k, y) on $left.k == $right.rk | as X | top 1 by y | project x, y | join kind=inner (X | project x2 = x, y2 = y) on $left.x == $right.x2 | project x, y, y2 | sort by x, y, y2",
		"L | join kind=leftouter (R | project rk = k, y) on $left.k == $right.rk | as X | take 1 | project x | join kind=inner (X | project x2 = x, y2 = y) on $left.x == $right.x2 | count",
		"L | join (R | project rk = k, y) on $left.k == $right.rk | as X | sort by y asc | take 1 | project k, y | join kind=leftouter (X | where y > 1 | project k3 = k, y3 = y) on $left.k == $right.k3 | project y, y3 | sort by y, y3",
		"L | where x > 0 | as X | where x > 1 | project k, x | join kind=inner (X | project k2 = k, x2 = x) on $left.k == $right.k2 | project x, x2 | sort by x, x2",
		"L | join kind=inner (R | project rk = k, y) on $left.k == $right.rk | as X | where y > 1 | summarize n = count() by x | join kind=inner (X | project x2 = x, y2 = y) on $left.x == $right.x2 | project n, y2 | sort by n, y2",
		"L | as X | join kind=inner (R | project rk = k, y) on $left.k == $right.rk | as Y | take 1 | project y | join kind=inner (Y | project y2 = y, x2 = x) on $left.y == $right.y2 | join kind=leftouter (X | project x3 = x) on $left.x2 == $right.x3 | count",
	}
	r.Sweep("coinciding-names", int64(len(coincide)), func(w *run.Worker, item int64) {
		if states[w.ID] == nil {
			states[w.ID] = &relState{in: sem.NewInterner()}
		}
		p, err := gen.ReadPipeline(coincide[item])
		if err != nil {
			w.HarnessError(fmt.Sprintf("program does not read: %v\n%s", err, coincide[item]))
			return
		}
		pr := gen.Print(gen.Single(p))
		relCheck(w, states[w.ID], "C03", p, pr.Layout(pr.Uniform(" ")).Source, dbs, map[string]any{"family": "coinciding-names"})
	})
	nw := c03Wide(r, states, dbs)
	r.Extra["wide"] = map[string]any{"programs": nw}
	r.Extra["bounds"] = map[string]any{"programs": len(progs), "databases": len(dbs), "prefixes": len(prefixes), "kinds": len(kinds), "right_sides": len(rights), "conditions": len(conds), "suffixes": len(suffixes)}
	r.Sample("L | sort by x | take 1 | join kind = leftouter ( R | where y > 1 ) on k , $left . x < $right . y | count")
	r.Sample("L | join ( R | join ( C ) on k ) on $left . x == $right . y | project x , y")
	r.MC = true
}
