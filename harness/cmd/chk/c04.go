package main

import (
	"fmt"
	"os"
	"strings"

	"github.com/runreveal/pql"
	"verif/harness/enum"
	"verif/harness/gen"
	"verif/harness/reftok"
	"verif/harness/run"
	"verif/harness/sqlx"
)

func init() { register("C04", "exploration", c04Main, c04Replay) }

const holeMark = "HOLE"

// skeleton is a program with one hole for a literal or a quoted name.
type skeleton struct {
	name string
	kind string // "string", "ident", "number", "int"
	pre  string
	post string
	// alias: the hole also appears inside an implicit column name, which is the
	// source text aliasPre + spelling + aliasPost.
	alias               bool
	aliasPre, aliasPost string
	// valPrefix: the SQL token carries a fixed prefix before the name (render_prop_<name>).
	valPrefix string
	// uses: how often the program uses the hole content (0 = once, or twice by the naming rule in c04Ref)
	uses int
}

var c04Skeletons = []skeleton{
	{name: "where-eq", kind: "string", pre: "T | where a == ", post: " | count"},
	{name: "in-list", kind: "string", pre: "T | where a in ('p', ", post: ", 'q')"},
	{name: "call-arg", kind: "string", pre: "T | where f(1, ", post: ") > 2"},
	{name: "index-key", kind: "string", pre: "T | where m[", post: "] == 1"},
	{name: "let-value", kind: "string", pre: "let v = ", post: "; T | where a == v and b != v"},
	{name: "project-value", kind: "string", pre: "T | project x = strcat(a, ", post: "), b"},
	{name: "summarize-countif", kind: "string", pre: "T | summarize n = countif(a == ", post: ") by b"},
	{name: "render-prop-value", kind: "string", pre: "T | render chart with (title=", post: ", kind=stacked)"},
	{name: "extend-implicit", kind: "string", pre: "T | extend ", post: " | count", alias: true, aliasPre: "", aliasPost: ""},
	{name: "extend-implicit-call", kind: "string", pre: "T | extend strcat(a, ", post: ")", alias: true, aliasPre: "strcat(a, ", aliasPost: ")"},
	{name: "after-escaped-literal", kind: "string", pre: "let s = 'p\\tq\\\\'; T | where a == s or b == \"u\\\"v\" or c == ", post: " | project c"},
	{name: "join-cond", kind: "string", pre: "T | join (R) on k, $left.a == ", post: " | count"},
	{name: "join-cond-via-let", kind: "string", pre: "let tag = ", post: "; T | join kind=leftouter (R | as H) on $left.k == $right.k, $left.side == tag | count"},
	{name: "join-cond-via-let-reversed", kind: "string", pre: "let tag = ", post: "; let t2 = tag; T | join (R) on t2 == $right.side, k"},
	{name: "where-via-let-chain", kind: "string", pre: "let a1 = ", post: "; let a2 = strcat(a1, 'x'); T | where s == a2 and t != a1 | extend z = a2", uses: 3},

	{name: "table", kind: "ident", pre: "", post: " | where a > 1"},
	{name: "table-then-join", kind: "ident", pre: "", post: " | join kind=leftouter (U | where y > 1) on $left.k == $right.k"},
	{name: "iff-arguments", kind: "string", pre: "T | extend v = iff(tag == ", post: ", 'p $2 q', \"$3\"), w = iif(a > 1, '$1', b)"},
	{name: "column", kind: "ident", pre: "T | where ", post: " == 1"},
	{name: "qualified-part", kind: "ident", pre: "T | where t.", post: " == 1 or ", alias: false},
	{name: "project-alias", kind: "ident", pre: "T | project ", post: " = a, b"},
	{name: "project-bare", kind: "ident", pre: "T | project b, ", post: ""},
	{name: "extend-alias", kind: "ident", pre: "T | extend ", post: " = a + 1"},
	{name: "summarize-alias", kind: "ident", pre: "T | summarize ", post: " = count() by b"},
	{name: "summarize-key-alias", kind: "ident", pre: "T | summarize count() by ", post: " = b"},
	{name: "as-name", kind: "ident", pre: "T | as ", post: " | count"},
	{name: "as-name-then-join", kind: "ident", pre: "T | as ", post: " | join kind=inner (U) on k"},
	{name: "as-name-in-right-side", kind: "ident", pre: "T | join kind=leftouter (U | where y > 1 | as ", post: ") on k | count"},
	{name: "as-name-then-ops", kind: "ident", pre: "T | where a | as ", post: " | where b | take 1"},
	{name: "table-in-nested-join", kind: "ident", pre: "T | join (U | join kind=inner (", post: ") on k) on k"},
	{name: "join-table", kind: "ident", pre: "T | join kind=inner (", post: " | where y > 1) on k"},
	{name: "join-column", kind: "ident", pre: "T | join (R) on ", post: ""},
	{name: "sort-key", kind: "ident", pre: "T | sort by ", post: " asc, b"},
	{name: "render-chart", kind: "ident", pre: "T | render ", post: " with (title='t')"},
	{name: "render-prop-name", kind: "ident", pre: "T | render c with (", post: "=1, z='s')", valPrefix: "render_prop_"},
	{name: "render-prop-ident", kind: "ident", pre: "T | render c with (t=", post: ")"},
	{name: "extend-implicit-ident", kind: "ident", pre: "T | extend ", post: " + 1", alias: true, aliasPre: "", aliasPost: " + 1"},

	{name: "where-number", kind: "number", pre: "T | where a > ", post: " and b"},
	{name: "index-number", kind: "number", pre: "T | where m[", post: "] == 1"},
	{name: "let-number", kind: "number", pre: "let v = ", post: "; T | where a == v"},
	{name: "take", kind: "int", pre: "T | take ", post: ""},
	{name: "top", kind: "int", pre: "T | top ", post: " by a"},
}

func init() {
	// the hole after / between k other literals or quoted names with escapes (scratch buffers, per-source caches)
	for _, k := range []int{3, 8, 9, 16, 17, 33, 65} {
		lits := cycle([]string{`'p\tq#'`, `"u\"v"`, "'x#'", `'\\'`, `"it's"`}, k, ", ")
		names := cycle([]string{"`n #`", "`q\"#`", "c#", "`b\\#`"}, k, ", ")
		c04Skeletons = append(c04Skeletons,
			skeleton{name: fmt.Sprintf("after-%d-literals", k), kind: "string", pre: "T | where s in (" + lits + ", ", post: ", 'z') | project s"},
			skeleton{name: fmt.Sprintf("before-%d-literals", k), kind: "string", pre: "T | where strcat(", post: ", " + lits + ") == s"},
			skeleton{name: fmt.Sprintf("after-%d-names", k), kind: "ident", pre: "T | project " + names + ", ", post: " = a"},
			skeleton{name: fmt.Sprintf("value-after-%d-names", k), kind: "string", pre: "T | project " + names + ", v = ", post: " | count"},
		)
	}
	// the qualified-part skeleton needs a closed expression
	for i := range c04Skeletons {
		if c04Skeletons[i].name == "qualified-part" {
			c04Skeletons[i].post = " == 1 or b"
		}
	}
	// every single-pipeline skeleton also (a) followed by further operators, so that its operator is written into a
	// common table expression, and (b) as the right-hand side of a join
	base := len(c04Skeletons)
	for i := 0; i < base; i++ {
		sk := c04Skeletons[i]
		if !strings.HasPrefix(sk.pre, "T | ") || strings.Contains(sk.pre+sk.post, ";") || strings.Contains(sk.name, "-literals") || strings.Contains(sk.name, "-names") || sk.alias || sk.name == "join-column" {
			continue
		}
		then := sk
		then.name += "+then-operators"
		then.post += " | as ZZ | where zz1 > 1 | take 7"
		right := sk
		right.name += "+as-right-side"
		right.pre = "U | where u1 | join kind=inner (" + sk.pre
		right.post += ") on k | count"
		c04Skeletons = append(c04Skeletons, then, right)
	}
	c04Skeletons = append(c04Skeletons,
		skeleton{name: "render-prop-before-expression-props", kind: "string", pre: "T | render chart with (title=", post: ", ymin=-1, legend=hidden, ymax=(2), t2='z')"},
		skeleton{name: "render-prop-after-expression-props", kind: "string", pre: "T | render chart with (ymin=-1, a=f(1), title=", post: ", z=+2)"},
		skeleton{name: "render-prop-name-before-expression-props", kind: "ident", pre: "T | render c with (", post: "='v', ymin=-1, z=(1))", valPrefix: "render_prop_"},
		skeleton{name: "render-prop-repeated", kind: "string", pre: "T | render chart with (title='draft', x=1, title=", post: ", y=2) | count"},
	)
}

var c04Alpha = []string{"a", "'", "\"", "`", "\\", "-", "/", "*", ";", "#", "(", ")", " ", "\n", "\x00", "{", "$", "é", "\xff", "%", "s"}
var c04QuoteAlpha = []string{"'", "\"", "\\", "a", "`"}
var c04NumAlpha = []string{"0", "1", "9", ".", "e", "E", "x", "X", "a", "f", "+", "-"}

// spellings returns the PQL spellings of a string value: single-quoted, double-
// quoted, and single-quoted with every escapable byte escaped.
func stringSpellings(val string) []string {
	enc := func(q byte, all bool) string {
		var sb strings.Builder
		sb.WriteByte(q)
		for i := 0; i < len(val); i++ {
			c := val[i]
			switch {
			case c == '\n':
				sb.WriteString(`\n`)
			case c == q || c == '\\':
				sb.WriteByte('\\')
				sb.WriteByte(c)
			case all && c != 'n' && c != 't' && (c < 0x80 || c >= 0xC0 || c == 0xff):
				// escape the first byte of every character; continuation bytes of a
				// multi-byte rune follow it unescaped
				sb.WriteByte('\\')
				sb.WriteByte(c)
			default:
				sb.WriteByte(c)
			}
		}
		sb.WriteByte(q)
		return sb.String()
	}
	return []string{enc('\'', false), enc('"', false), enc('\'', true)}
}

type c04Case struct {
	sk       int
	spelling string // PQL text in the hole
	want     string // value the SQL hole token must decode to
}

func c04One(w *run.Worker, c c04Case, refToks [][]sqlx.Tok) {
	sk := c04Skeletons[c.sk]
	src := sk.pre + c.spelling + sk.post
	w.Begin("hole-tokens:"+sk.name, src)
	var sql string
	var err error
	if !w.Try(src, func() { sql, err = pql.Compile(src) }) {
		return
	}
	extra := map[string]any{"skeleton": c.sk, "spelling_hex": fmt.Sprintf("%x", c.spelling), "want_hex": fmt.Sprintf("%x", c.want)}
	if err != nil {
		w.Fail("rejected:"+sk.name, src, fmt.Sprintf("content admitted by the lexer at position %s rejected: %v", sk.name, err), extra)
		return
	}
	w.Nontrivial()
	for di, d := range []sqlx.Dialect{sqlx.ClickHouse, sqlx.Standard} {
		toks := sqlx.Lex(sql, d)
		ref := refToks[di]
		if probs := sqlx.Problems(toks); len(probs) > 0 {
			w.Fail(fmt.Sprintf("structure:%s:%s", sk.name, d), src, fmt.Sprintf("content changes the token structure (%s rules): %s\nsql: %s", d, strings.Join(probs, "; "), sql), extra)
			return
		}
		if len(toks) != len(ref) {
			w.Fail(fmt.Sprintf("structure:%s:%s", sk.name, d), src, fmt.Sprintf("content changes the number of SQL tokens (%s rules): %d instead of %d\nsql: %s", d, len(toks), len(ref), sql), extra)
			return
		}
		for i := range toks {
			t, rt := toks[i], ref[i]
			if t.Kind != rt.Kind {
				w.Fail(fmt.Sprintf("structure:%s:%s", sk.name, d), src, fmt.Sprintf("token %d changes kind (%s rules): %v instead of %v\nsql: %s", i, d, t, rt, sql), extra)
				return
			}
			hole, aliasHole := false, false
			if rt.Kind == sqlx.TString || rt.Kind == sqlx.TQuotedIdent {
				if rt.Val == sk.valPrefix+holeMark {
					hole = true
				} else if sk.alias && strings.Contains(rt.Val, holeMark) {
					aliasHole = true
				}
			}
			if sk.kind == "number" || sk.kind == "int" {
				hole = rt.Kind == sqlx.TNumber && rt.Text == "424242"
			}
			switch {
			case hole && (sk.kind == "number" || sk.kind == "int"):
				got := reftok.NumValue(t.Text)
				want := reftok.NumValue(c.spelling)
				if got == nil || want == nil || got.Cmp(want) != 0 {
					w.Fail("value:number:"+sk.name, src, fmt.Sprintf("SQL number %q does not have the value of PQL literal %q\nsql: %s", t.Text, c.spelling, sql), extra)
					return
				}
			case hole || aliasHole:
				want := sk.valPrefix + c.want
				if aliasHole {
					want = sk.aliasPre + c.spelling + sk.aliasPost
				}
				if d == sqlx.Standard && strings.Contains(want, "\\") {
					continue // standard rules do not define backslash escapes; structure was checked
				}
				if t.Val != want {
					w.Fail(fmt.Sprintf("value:%s:%s", sk.name, d), src, fmt.Sprintf("SQL token %s decodes to %q under %s rules, want %q\nsql: %s", t.Text, t.Val, d, want, sql), extra)
					return
				}
			default:
				if t.Text != rt.Text {
					w.Fail(fmt.Sprintf("structure:%s:%s", sk.name, d), src, fmt.Sprintf("token %d outside the hole changes: %q instead of %q (%s rules)\nsql: %s", i, t.Text, rt.Text, d, sql), extra)
					return
				}
			}
		}
	}
}

func c04Ref(sk skeleton) ([][]sqlx.Tok, error) {
	var hole string
	switch sk.kind {
	case "string":
		hole = "'" + holeMark + "'"
	case "ident":
		hole = "`" + holeMark + "`"
	default:
		hole = "424242"
	}
	sql, err := pql.Compile(sk.pre + hole + sk.post)
	if err != nil {
		return nil, fmt.Errorf("reference program %q does not compile: %v", sk.pre+hole+sk.post, err)
	}
	out := [][]sqlx.Tok{sqlx.Lex(sql, sqlx.ClickHouse), sqlx.Lex(sql, sqlx.Standard)}
	found := false
	cnt := 0
	for _, t := range out[0] {
		if t.Val == sk.valPrefix+holeMark || t.Text == "424242" {
			found = true
			cnt++
		}
	}
	if os.Getenv("VERIF_DEBUG_HOLES") != "" {
		fmt.Fprintf(os.Stderr, "holes %d %s\n", cnt, sk.name)
	}
	if !found {
		return nil, fmt.Errorf("reference output for %s has no hole token: %s", sk.name, sql)
	}
	// the literal / name occurs in the output as often as the program uses it: once, or twice where it is defined
	// and used (as names), used twice (let-value) or both expression and column name (project-bare)
	want := 1
	base := strings.SplitN(sk.name, "+", 2)[0]
	if strings.HasPrefix(base, "as-name") || base == "let-value" || base == "project-bare" {
		want = 2
	}
	if sk.uses > 0 {
		want = sk.uses
	}
	if cnt != want {
		return nil, fmt.Errorf("reference output for %s carries the hole content %d times, the program uses it %d times: %s", sk.name, cnt, want, sql)
	}
	return out, nil
}

func c04Main(r *run.Runner) {
	r.Rule = "for every skeleton (one per position kind where a literal or name can occur: 11 string positions, 16 name positions, 5 number positions) and every content over the stated alphabets up to length n, in every PQL spelling (single-quoted, double-quoted, all-escaped, back-tick), " +
		"plus skeletons whose hole comes after / before k other escaped literals or quoted names (k = 3..65) and long contents (0..300 bytes), the program is compiled and the output is lexed under ClickHouse and standard rules: token count, kinds and all non-hole token texts must equal those of the same skeleton with the content HOLE, and the hole tokens must decode to the PQL value; " +
		"non-trivial = the program compiled and reached the comparison; distinct by construction (skeleton x content x spelling)"
	r.Assume = []string{"target dialect for decoding is ClickHouse (backslash escapes); standard rules are used for structure and, when the value has no backslash, for decoding",
		"string values are those the reference tokenizer assigns to the PQL spelling"}
	n, nq := 3, 5
	if r.Thorough() {
		n, nq = 4, 7
	}
	refs := make([][][]sqlx.Tok, len(c04Skeletons))
	for i, sk := range c04Skeletons {
		ref, err := c04Ref(sk)
		if err != nil {
			// the skeleton itself is broken on this tree: report as a violation of the position
			r.Serial(func(w *run.Worker) {
				w.Begin("skeleton:"+sk.name, sk.pre+"'HOLE'"+sk.post)
				w.Fail("skeleton-rejected:"+sk.name, sk.pre+"'HOLE'"+sk.post, err.Error(), nil)
			})
			continue
		}
		refs[i] = ref
	}
	doContent := func(w *run.Worker, val string) {
		for si, sk := range c04Skeletons {
			if refs[si] == nil {
				continue
			}
			switch sk.kind {
			case "string":
				for _, sp := range stringSpellings(val) {
					c04One(w, c04Case{sk: si, spelling: sp, want: val}, refs[si])
				}
			case "ident":
				if strings.Contains(val, "\n") {
					continue
				}
				c04One(w, c04Case{sk: si, spelling: gen.QuoteIdent(val), want: val}, refs[si])
			}
		}
	}
	for _, a := range []struct {
		name  string
		alpha []string
		n     int
	}{{"content19", c04Alpha, n}, {"quotes5", c04QuoteAlpha, nq}} {
		e := enum.Strings{Alpha: a.alpha, MaxLen: a.n, Split: 1}
		r.Sweep(a.name, e.Items(), func(w *run.Worker, item int64) {
			e.Do(item, func(buf []byte, _ []int) bool {
				doContent(w, string(buf))
				return !w.Stopped()
			})
		})
	}
	// contents that mean something to the compiler itself (its aliases, generated names, placeholders, keywords)
	magic := []string{"$left", "$right", "$left.a", "$right.k", "a $right b", "__subquery0", "__subquery1", "count()", "render_type", "render_prop_title", "NULL /* unhandled",
		"coalesce(", "true", "false", "null", "by", "and", "in", "$1", "{p:Int32}", "HOLE", "k", "a", "T", "R", "x", "v", "tag", "lower(", "--", "/*", "*/", "\\n", "%d", "$", "$$", "${x}", "{on}", "{left}", "{right}", "{{on}}", "{0}", "%s", "%v", "%[1]s", "$2", "$3", "from $3 up", "\\1", "&", "?"}
	r.Sweep("magic-contents", int64(len(magic)), func(w *run.Worker, item int64) {
		doContent(w, magic[item])
		doContent(w, " "+magic[item]+" ")
		doContent(w, magic[item]+"'"+magic[item])
	})
	// differently spelled names that must stay different: a quoted part containing a dot vs a dotted path, a quoted vs a plain
	// spelling, a string with the same text - two of them in one expression and in two operators
	spell := []struct{ pql, sql string }{
		{"attrs.size", `"attrs"."size"`}, {"`attrs.size`", `"attrs.size"`}, {"`attrs`.`size`", `"attrs"."size"`}, {"attrs.`size`", `"attrs"."size"`},
		{"`a.b`.c", `"a.b"."c"`}, {"a.`b.c`", `"a"."b.c"`}, {"a.b.c", `"a"."b"."c"`}, {"`a.b.c`", `"a.b.c"`}, {"size", `"size"`}, {"`size`", `"size"`}, {"`Size`", `"Size"`},
		{"'attrs.size'", `'attrs.size'`}, {"\"size\"", `'size'`}, {"`attrs size`", `"attrs size"`}, {"attrs", `"attrs"`},
	}
	r.Sweep("name-spellings", int64(len(spell)*len(spell)), func(w *run.Worker, item int64) {
		a, b := spell[item/int64(len(spell))], spell[item%int64(len(spell))]
		for _, form := range []string{"T | where %s > 10 and %s < 20", "T | extend z = %s | where %s > 1", "T | where f(%s) == 1 | project q = %s", "T | join (R | where %s > 1) on k | where %s > 2", "T | sort by %s | project z = %s, k"} {
			src := fmt.Sprintf(form, a.pql, b.pql)
			w.Begin("name-spellings", src)
			var sql string
			var err error
			if !w.Try(src, func() { sql, err = pql.Compile(src) }) {
				return
			}
			if err != nil {
				continue
			}
			w.Nontrivial()
			ia, ib := strings.Index(sql, a.sql), strings.LastIndex(sql, b.sql)
			okA := ia >= 0 && (a.sql[0] != '"' || !strings.HasPrefix(sql[ia+len(a.sql):], `."`)) && (ia < 2 || sql[ia-2:ia] != `".`)
			okB := ib >= 0 && (b.sql[0] != '"' || !strings.HasPrefix(sql[ib+len(b.sql):], `."`)) && (ib < 2 || sql[ib-2:ib] != `".`)
			if !okA || !okB {
				w.Fail("name-spelling-conflated", src, fmt.Sprintf("the names %s and %s must appear as %s and %s\nsql: %s", a.pql, b.pql, a.sql, b.sql, sql), map[string]any{"a": a.pql, "b": b.pql, "asql": a.sql, "bsql": b.sql, "form": form})
				return
			}
		}
	})
	// long contents: a special character after n ordinary bytes, for every n up to 300 (buffer sizes, truncation)
	type longCase struct {
		pad  int
		tail string
	}
	var longs []longCase
	maxPad := 300
	for n := 0; n <= maxPad; n++ {
		for _, tail := range []string{"\"", "'", "\\", "\"x\"", "`", "%s", "é", "a"} {
			longs = append(longs, longCase{n, tail})
		}
	}
	r.Sweep("long-contents", int64(len(longs)), func(w *run.Worker, item int64) {
		lc := longs[item]
		doContent(w, strings.Repeat("a", lc.pad)+lc.tail)
		doContent(w, lc.tail+strings.Repeat("b", lc.pad)+lc.tail)
	})
	// numbers
	en := enum.Strings{Alpha: c04NumAlpha, MaxLen: 6, Split: 2}
	if !r.Thorough() {
		en.MaxLen = 5
	}
	r.Sweep("numbers12", en.Items(), func(w *run.Worker, item int64) {
		en.Do(item, func(buf []byte, _ []int) bool {
			s := string(buf)
			t := reftok.Scan(s)
			if len(t) != 1 || t[0].Kind != reftok.Number || t[0].End != len(s) {
				return true
			}
			for si, sk := range c04Skeletons {
				if refs[si] == nil {
					continue
				}
				if sk.kind == "number" || (sk.kind == "int" && reftok.IsIntegerSpelling(s)) {
					c04One(w, c04Case{sk: si, spelling: s}, refs[si])
				}
			}
			return !w.Stopped()
		})
	})
	// unquoted identifiers: every identifier spelling over a small alphabet at name positions
	ei := enum.Strings{Alpha: []string{"a", "Z", "_", "$", "0", "by", "in", "x"}, MaxLen: 3, Split: 1}
	r.Sweep("bare-identifiers", ei.Items(), func(w *run.Worker, item int64) {
		ei.Do(item, func(buf []byte, _ []int) bool {
			s := string(buf)
			t := reftok.Scan(s)
			if len(t) != 1 || t[0].Kind != reftok.Ident || t[0].End != len(s) || s == "true" || s == "false" || s == "null" {
				return true
			}
			for si, sk := range c04Skeletons {
				if refs[si] == nil || sk.kind != "ident" || sk.name == "extend-implicit-ident" || sk.name == "join-column" {
					// join-column: a bare name after `on` is rewritten to $left.k == $right.k (C03), a different structure
					continue
				}
				if strings.HasPrefix(s, "$") {
					continue // $left/$right style names have their own rules (C13)
				}
				c04One(w, c04Case{sk: si, spelling: s, want: s}, refs[si])
			}
			return !w.Stopped()
		})
	})
	names := []string{}
	for _, sk := range c04Skeletons {
		names = append(names, sk.name)
	}
	r.Extra["bounds"] = map[string]any{"skeletons": names, "content_alphabet": c04Alpha, "content_max_len": n, "quote_alphabet_max_len": nq, "number_max_len": en.MaxLen, "long_content_pad_up_to": 300}
	r.Sample("T | render chart with (title='a\\';--', kind=stacked)")
	r.Sample("T | project `x\"` = a, b")
}

func c04Replay(w *run.Worker, v *run.Viol) {
	if v.Check == "name-spellings" {
		asql, _ := v.Extra["asql"].(string)
		bsql, _ := v.Extra["bsql"].(string)
		w.Begin(v.Check, v.Source)
		sql, err := pql.Compile(v.Source)
		if err == nil && (!strings.Contains(sql, asql) || !strings.Contains(sql, bsql)) {
			w.Fail(v.Sig, v.Source, "sql: "+sql, nil)
		}
		return
	}
	if strings.HasPrefix(v.Check, "skeleton:") {
		name := strings.TrimPrefix(v.Check, "skeleton:")
		for _, sk := range c04Skeletons {
			if sk.name == name {
				w.Begin(v.Check, v.Source)
				if _, err := c04Ref(sk); err != nil {
					w.Fail("skeleton-rejected:"+sk.name, v.Source, err.Error(), nil)
				}
			}
		}
		return
	}
	si := 0
	switch x := v.Extra["skeleton"].(type) {
	case float64:
		si = int(x)
	case int:
		si = x
	}
	ref, err := c04Ref(c04Skeletons[si])
	if err != nil {
		w.Fail(v.Sig, v.Source, err.Error(), nil)
		return
	}
	unhex := func(k string) string {
		h, _ := v.Extra[k].(string)
		var b []byte
		fmt.Sscanf(h, "%x", &b)
		return string(b)
	}
	c04One(w, c04Case{sk: si, spelling: unhex("spelling_hex"), want: unhex("want_hex")}, ref)
}
