package main

import (
	"fmt"
	"regexp"
	"strings"

	"github.com/runreveal/pql"
	"github.com/runreveal/pql/parser"
	"verif/harness/gen"
	"verif/harness/run"
	"verif/harness/sqlx"
)

func init() { register("C05", "exploration", c05Main, c05Replay) }

var subqueryName = regexp.MustCompile(`^__subquery\d+$`)

// wellFormed returns the defects of sql as a compilation result of src ("" = none).
func wellFormed(src, sql string) (sig, detail string) {
	var stmt *sqlx.Stmt
	for _, d := range []sqlx.Dialect{sqlx.ClickHouse, sqlx.Standard} {
		st, _, err := sqlx.ParseStatement(sql, d)
		if err != nil {
			kind := "syntax"
			if strings.HasPrefix(err.Error(), "lexical") {
				kind = "lexical"
				switch {
				case strings.Contains(err.Error(), "comment"):
					kind = "lexical:comment"
				case strings.Contains(err.Error(), "unterminated"):
					kind = "lexical:unterminated"
				case strings.Contains(err.Error(), "semicolon") || strings.Contains(err.Error(), "separator"):
					kind = "lexical:separator"
				case strings.Contains(err.Error(), "bracket") || strings.Contains(err.Error(), "unbalanced"):
					kind = "lexical:brackets"
				}
			}
			return "sql:" + kind, fmt.Sprintf("output does not read as one SQL statement (%s rules): %v\nsql: %s", d, err, sql)
		}
		if d == sqlx.ClickHouse {
			stmt = st
		}
	}
	// tables named in the PQL source
	srcNames := map[string]bool{}
	for _, t := range parser.Scan(src) {
		if t.Kind == parser.TokenIdentifier || t.Kind == parser.TokenQuotedIdentifier {
			srcNames[t.Value] = true
		}
	}
	defined := map[string]int{}
	used := map[string]bool{}
	var visit func(q *sqlx.Select, idx int) (string, string)
	visit = func(q *sqlx.Select, idx int) (string, string) {
		srcs := []*sqlx.Source{q.From}
		if q.Join != nil {
			srcs = append(srcs, q.Join.Right)
		}
		for _, s := range srcs {
			if s.Sub != nil {
				if sg, d := visit(s.Sub, idx); sg != "" {
					return sg, d
				}
				continue
			}
			if di, ok := defined[s.Table]; ok && di < idx {
				used[s.Table] = true
				continue
			}
			if srcNames[s.Table] {
				continue // the user's own table, even if it is spelled like a generated name
			}
			if _, ok := defined[s.Table]; ok {
				return "cte:forward-reference", fmt.Sprintf("query %d reads common table expression %q which is not defined earlier\nsql: %s", idx, s.Table, sql)
			}
			if subqueryName.MatchString(s.Table) && !srcNames[s.Table] {
				return "cte:undefined", fmt.Sprintf("query %d reads %q which is neither defined earlier nor a table of the source\nsql: %s", idx, s.Table, sql)
			}
			if !srcNames[s.Table] {
				return "table:not-in-source", fmt.Sprintf("query %d reads table %q which the PQL source does not name\nsql: %s", idx, s.Table, sql)
			}
		}
		return "", ""
	}
	for i, c := range stmt.CTEs {
		if _, dup := defined[c.Name]; dup {
			return "cte:duplicate-name", fmt.Sprintf("common table expression %q defined twice\nsql: %s", c.Name, sql)
		}
		// a CTE may not read itself
		defined[c.Name] = i
		if sg, d := visit(c.Q, i); sg != "" {
			return sg, d
		}
	}
	if sg, d := visit(stmt.Q, len(stmt.CTEs)); sg != "" {
		return sg, d
	}
	for _, c := range stmt.CTEs {
		if !used[c.Name] {
			return "cte:unused", fmt.Sprintf("common table expression %q is never read\nsql: %s", c.Name, sql)
		}
	}
	return "", ""
}

// c05One compiles src and, on success, checks the output.
func c05One(w *run.Worker, src string) {
	w.Begin("output-well-formed", src)
	for oi, o := range c12Opts {
		var sql string
		var err error
		if !w.Try(src, func() { sql, err = o.Compile(src) }) {
			return
		}
		if err != nil {
			return
		}
		if oi == 0 {
			w.Nontrivial()
		}
		if sig, detail := wellFormed(src, sql); sig != "" {
			w.Fail(sig, src, detail, map[string]any{"options": oi})
			return
		}
	}
}

func c05Main(r *run.Runner) {
	r.Rule = "every source of the enumerations (lexeme sequences up to L tokens over three alphabets, every corruption of the grammar corpus, the corpus itself in several layouts, expression trees up to N nodes in where/extend position, all operator sequences up to depth d) and the wide families (k operands / columns / operators / joins, alone and as a join right-hand side) is compiled with three option values; " +
		"every successful output is lexed under standard and ClickHouse rules and parsed as `[WITH ...] select ;` by the independent reader, and its table references, CTE names and CTE uses are checked; non-trivial = Compile succeeded; distinct by construction"
	r.Assume = []string{"sqlx reads a superset of the SQL shapes pql emits", "a table is 'named in the source' when its name is the value of an identifier token of the source"}
	corpus := gen.Programs()
	r.Sweep("corpus", int64(len(corpus)), func(w *run.Worker, item int64) {
		pr := gen.Print(corpus[item])
		for _, sep := range []string{" ", "\n", " // c\n"} {
			c05One(w, pr.Layout(pr.Uniform(sep)).Source)
		}
	})
	N := 2
	if r.Thorough() {
		N = 3
	}
	shapes := gen.NewShapes(exprKindsCompile(), N-1)
	for n := 1; n <= N; n++ {
		items := shapes.Items(n)
		r.Sweep(fmt.Sprintf("expr-trees-%d", n), int64(len(items)), func(w *run.Worker, item int64) {
			shapes.Do(items[item], func(sh gen.Expr) bool {
				e := gen.Instantiate(sh, gen.FreshCols())
				for _, m := range []gen.ParenMode{gen.Minimal, gen.Redundant} {
					t := gen.ExprText(gen.WrapRoot(e, m))
					c05One(w, "T | where "+t)
					c05One(w, "T | extend "+t+" | summarize x = max("+t+") by "+t)
				}
				return !w.Stopped()
			})
		})
	}
	// long implicit column names and long quoted names (sizes 0..300 around a quote / backslash)
	r.Sweep("long-aliases", 301, func(w *run.Worker, item int64) {
		pad := strings.Repeat("a", int(item))
		for _, tail := range []string{`"x"`, `'y'`, `"\\"`, "`q\"r`", `"%s"`} {
			c05One(w, "T | extend strcat("+pad+", "+tail+")")
			c05One(w, "T | summarize max("+pad+") by strcat("+pad+", "+tail+"), b | count")
			c05One(w, "T | project `"+pad+`"`+"` = "+tail+" | as `"+pad+`\`+"` | join (U) on k")
		}
	})
	joins := c03Programs(r.Thorough(), 3)
	r.Sweep("join-programs", int64(len(joins)), func(w *run.Worker, item int64) {
		pr := gen.Print(gen.Single(joins[item]))
		c05One(w, pr.Layout(pr.Uniform(" ")).Source)
	})
	// wide families (k operands / columns / terms / operators / joins / nested right-hand sides for every wide size)
	var wides []string
	for _, k := range wideSizes(r.Thorough()) {
		for _, f := range wideExprFamilies() {
			if f.max > 0 && k > f.max {
				continue
			}
			if f.hot != nil {
				wides = append(wides, "T | where "+f.hot(k, k/2), "T | extend "+f.hot(k, k-1)+" | summarize max(a) by "+f.hot(k, 0))
			} else {
				wides = append(wides, "T | where "+f.text(k), "T | extend "+f.text(k)+" | summarize max(a) by "+f.text(k))
			}
		}
		for _, f := range append(wideProgFamilies(), wideJoinFamilies()...) {
			if f.max == 0 || k <= f.max {
				wides = append(wides, f.text(k), "U | join kind=inner ("+f.text(k)+") on k | count")
			}
		}
	}
	// user names spelled like generated names
	for _, n := range []string{"__subquery0", "__subquery1", "__subquery2", "__subquery10"} {
		wides = append(wides,
			n+" | where a > 1 | project a | count",
			"T | where a > 1 | join kind=leftouter ("+n+" | where b > 0) on k | project a | count",
			"T | as "+n+" | where a | project b | count",
			"T | where a | as "+n+" | join ("+n+") on k | take 1",
			"T | project "+n+" = a | sort by "+n+" | take 2 | where "+n+" > 1",
		)
	}
	r.Sweep("wide", int64(len(wides)), func(w *run.Worker, item int64) { c05One(w, wides[item]) })
	// programs with bindings: every use site of C06 (operand positions, list elements first / middle / last, row counts,
	// join conditions, nested right-hand sides) with a few binding values
	sites := c06UseSites()
	values := []gen.Expr{gen.NumLit("5", "5"), &gen.Unary{Op: "-", X: gen.NumLit("5", "5")}, &gen.Binary{Op: "+", X: gen.NumLit("1", "1"), Y: gen.NumLit("2", "2")}, gen.StrLit("x"), &gen.Call{Func: "f", Args: []gen.Expr{gen.NumLit("1", "1")}}}
	r.Sweep("binding-sites", int64(len(sites)), func(w *run.Worker, item int64) {
		for _, v := range values {
			for _, name := range []string{"n", "x"} {
				src, _ := c06Case{lets: []letDef{{name, v}}, site: &sites[item], ident: name}.source()
				c05One(w, src)
			}
		}
	})
	b3 := map[string]any{}
	if c05Pipelines != nil {
		b3 = c05Pipelines(r)
	}
	// the large enumerations last: the families above must not be starved by the tier deadline
	b1 := tokenSweeps(r, 4, 6, c05One)
	b2 := corruptionSweep(r, c05One)
	r.Extra["bounds"] = map[string]any{"token_sequences": b1, "corruptions": b2, "corpus_programs": len(corpus), "expr_internal_nodes": N, "pipelines": b3, "join_programs": len(joins), "wide_programs": len(wides)}
	r.Sample("T | take - 1 | where 'x' | as by")
	r.Sample("T | join ( R | join ( C ) on k ) on k | count")
}

// c05Pipelines is set by the operator-sequence enumerator (c02.go).
var c05Pipelines func(r *run.Runner) map[string]any

func c05Replay(w *run.Worker, v *run.Viol) { c05One(w, v.Source) }

// exprKindsCompile: node kinds for enumerations whose programs are compiled
// (built-in functions with their correct arities).
func exprKindsCompile() []gen.NodeKind {
	k := gen.AllBinKinds()
	k = append(k, gen.In1Kind, gen.In2Kind, gen.NegKind, gen.PosKind, gen.IndexKind,
		gen.CallKind("f", 1), gen.CallKind("f", 2),
		gen.CallKind("not", 1), gen.CallKind("isnull", 1), gen.CallKind("isnotnull", 1), gen.CallKind("iff", 3),
		gen.CallKind("strcat", 2), gen.CallKind("tolower", 1), gen.CallKind("toupper", 1), gen.CallKind("now", 0),
		gen.CallKind("count", 0), gen.CallKind("countif", 1))
	return k
}

var _ = pql.Compile
