package main

import (
	"fmt"
	"sort"
	"strings"

	"github.com/runreveal/pql"
	"verif/harness/gen"
	"verif/harness/run"
	"verif/harness/sem"
	"verif/harness/sqlx"
)

func init() { register("C06", "exploration", c06Main, c06Replay) }

type letDef struct {
	name  string
	value gen.Expr
}

// value shapes; prev is the name of an earlier binding ("" if none), p a parameter name ("" if none)
func c06ValueShapes(prev, param string) []gen.Expr {
	one, two, five := gen.NumLit("1", "1"), gen.NumLit("2", "2"), gen.NumLit("5", "5")
	out := []gen.Expr{
		five,
		&gen.Unary{Op: "-", X: five},
		&gen.Binary{Op: "+", X: one, Y: two},
		&gen.Binary{Op: "-", X: one, Y: two},
		&gen.Paren{X: five},
		&gen.Call{Func: "f", Args: []gen.Expr{one}},
		&gen.In{X: one, Vals: []gen.Expr{one, two}},
		&gen.Binary{Op: "==", X: one, Y: two},
		&gen.Call{Func: "not", Args: []gen.Expr{one}},
		&gen.Call{Func: "isnull", Args: []gen.Expr{one}},
		&gen.Binary{Op: "+", X: &gen.Call{Func: "g", Args: []gen.Expr{gen.StrLit("(")}}, Y: one},
		&gen.Binary{Op: "-", X: &gen.Call{Func: "g", Args: []gen.Expr{gen.StrLit(")]}"), gen.StrLit("{[ (")}}, Y: two},
		&gen.Binary{Op: "*", X: two, Y: &gen.Call{Func: "g", Args: []gen.Expr{&gen.Lit{Kind: gen.Str, Text: `"a b"`, Value: "a b"}}}},
	}
	if prev != "" {
		out = append(out,
			&gen.Binary{Op: "+", X: gen.Col(prev), Y: one},
			&gen.Unary{Op: "-", X: gen.Col(prev)},
			gen.Col(prev),
		)
	}
	if param != "" {
		out = append(out, gen.Col(param), &gen.Unary{Op: "-", X: gen.Col(param)})
	}
	return out
}

type useSite struct {
	name  string
	pos   string // position name in c01Positions, or "custom"
	tree  func(n gen.Expr) gen.Expr
	build func(e string) string
	// custom extraction
	extract func(st *sqlx.Stmt) ([]sqlx.Expr, error)
	truth   bool
	closed  bool // expression must not mention columns (take / top)
}

func c06UseSites() []useSite {
	na, nb := gen.Col("na"), gen.Col("nb")
	one := gen.NumLit("1", "1")
	w := func(f func(n gen.Expr) gen.Expr) func(n gen.Expr) gen.Expr { return f }
	sites := []useSite{
		{name: "alone", pos: "where", tree: w(func(n gen.Expr) gen.Expr { return n })},
		{name: "under-minus", pos: "where", tree: w(func(n gen.Expr) gen.Expr { return &gen.Unary{Op: "-", X: n} })},
		{name: "under-plus", pos: "project", tree: w(func(n gen.Expr) gen.Expr { return &gen.Unary{Op: "+", X: n} })},
		{name: "minus-left", pos: "where", tree: w(func(n gen.Expr) gen.Expr { return &gen.Binary{Op: "-", X: n, Y: na} })},
		{name: "minus-right", pos: "where", tree: w(func(n gen.Expr) gen.Expr { return &gen.Binary{Op: "-", X: na, Y: n} })},
		{name: "times-left", pos: "extend", tree: w(func(n gen.Expr) gen.Expr { return &gen.Binary{Op: "*", X: n, Y: na} })},
		{name: "times-right", pos: "extend", tree: w(func(n gen.Expr) gen.Expr { return &gen.Binary{Op: "*", X: na, Y: n} })},
		{name: "div-right", pos: "where", tree: w(func(n gen.Expr) gen.Expr { return &gen.Binary{Op: "/", X: na, Y: n} })},
		{name: "eq-right", pos: "where", tree: w(func(n gen.Expr) gen.Expr { return &gen.Binary{Op: "==", X: na, Y: n} })},
		{name: "eq-left", pos: "where", tree: w(func(n gen.Expr) gen.Expr { return &gen.Binary{Op: "==", X: n, Y: na} })},
		{name: "lt-left", pos: "where", tree: w(func(n gen.Expr) gen.Expr { return &gen.Binary{Op: "<", X: n, Y: na} })},
		{name: "and-left", pos: "where", tree: w(func(n gen.Expr) gen.Expr { return &gen.Binary{Op: "and", X: n, Y: na} })},
		{name: "or-right", pos: "where", tree: w(func(n gen.Expr) gen.Expr { return &gen.Binary{Op: "or", X: na, Y: n} })},
		{name: "in-list", pos: "where", tree: w(func(n gen.Expr) gen.Expr { return &gen.In{X: na, Vals: []gen.Expr{n, one}} })},
		{name: "in-subject", pos: "where", tree: w(func(n gen.Expr) gen.Expr { return &gen.In{X: n, Vals: []gen.Expr{na, one}} })},
		{name: "index-key", pos: "where", tree: w(func(n gen.Expr) gen.Expr { return &gen.Index{X: gen.Col("ra"), I: n} })},
		{name: "index-base", pos: "where", tree: w(func(n gen.Expr) gen.Expr { return &gen.Index{X: n, I: one} })},
		{name: "call-arg", pos: "where", tree: w(func(n gen.Expr) gen.Expr { return &gen.Call{Func: "g", Args: []gen.Expr{na, n}} })},
		{name: "not-arg", pos: "where", tree: w(func(n gen.Expr) gen.Expr { return &gen.Call{Func: "not", Args: []gen.Expr{n}} })},
		{name: "isnull-arg", pos: "where", tree: w(func(n gen.Expr) gen.Expr { return &gen.Call{Func: "isnull", Args: []gen.Expr{n}} })},
		{name: "iff-arg", pos: "project", tree: w(func(n gen.Expr) gen.Expr { return &gen.Call{Func: "iff", Args: []gen.Expr{n, n, nb}} })},
		{name: "twice", pos: "where", tree: w(func(n gen.Expr) gen.Expr {
			return &gen.Binary{Op: "*", X: &gen.Unary{Op: "-", X: n}, Y: &gen.Paren{X: &gen.Binary{Op: "-", X: na, Y: n}}}
		})},
		{name: "sort-key", pos: "sort", tree: w(func(n gen.Expr) gen.Expr { return &gen.Binary{Op: "*", X: n, Y: na} })},
		{name: "top-key", pos: "top-by", tree: w(func(n gen.Expr) gen.Expr { return &gen.Binary{Op: "-", X: na, Y: n} })},
		{name: "summarize", pos: "summarize", tree: w(func(n gen.Expr) gen.Expr { return &gen.Binary{Op: "-", X: na, Y: n} })},
		{name: "extend-unnamed", pos: "extend-unnamed", tree: w(func(n gen.Expr) gen.Expr { return &gen.Binary{Op: "-", X: na, Y: n} })},
		{name: "take", pos: "take", closed: true, tree: w(func(n gen.Expr) gen.Expr { return n })},
		{name: "take-minus", pos: "take", closed: true, tree: w(func(n gen.Expr) gen.Expr { return &gen.Unary{Op: "-", X: n} })},
		{name: "top-count", pos: "custom", closed: true, tree: w(func(n gen.Expr) gen.Expr { return n }),
			build: func(e string) string { return "T | top " + e + " by na" },
			extract: func(st *sqlx.Stmt) ([]sqlx.Expr, error) {
				if st.Q.Limit == nil {
					return nil, errShape
				}
				return []sqlx.Expr{st.Q.Limit}, nil
			}},
		{name: "project-bare", pos: "custom", tree: w(func(n gen.Expr) gen.Expr { return n }),
			build: func(e string) string { return "T | project nb, " + e },
			extract: func(st *sqlx.Stmt) ([]sqlx.Expr, error) {
				if len(st.Q.Items) != 2 || st.Q.Items[1].Star {
					return nil, errShape
				}
				return []sqlx.Expr{st.Q.Items[1].X}, nil
			}},
		// a column alias of the same name does not hide the binding in later expressions
		{name: "sort-after-extend-alias", pos: "custom",
			tree:  w(func(n gen.Expr) gen.Expr { return &gen.Binary{Op: "+", X: n, Y: na} }),
			build: func(e string) string { return "T | extend " + identOf(e) + " = nb * 2 | sort by " + e + " asc" },
			extract: func(st *sqlx.Stmt) ([]sqlx.Expr, error) {
				if len(st.Q.OrderBy) != 1 {
					return nil, errShape
				}
				return []sqlx.Expr{st.Q.OrderBy[0].X}, nil
			}},
		{name: "top-after-extend-alias", pos: "custom",
			tree:  w(func(n gen.Expr) gen.Expr { return &gen.Binary{Op: "-", X: na, Y: n} }),
			build: func(e string) string { return "T | where na > 0 | extend " + identOf(e) + " = nb | top 3 by " + e },
			extract: func(st *sqlx.Stmt) ([]sqlx.Expr, error) {
				if len(st.Q.OrderBy) != 1 {
					return nil, errShape
				}
				return []sqlx.Expr{st.Q.OrderBy[0].X}, nil
			}},
		{name: "where-after-project-alias", pos: "custom",
			tree:  w(func(n gen.Expr) gen.Expr { return &gen.Binary{Op: "==", X: na, Y: n} }),
			build: func(e string) string { return "T | project na, " + identOf(e) + " = nb | where " + e },
			extract: func(st *sqlx.Stmt) ([]sqlx.Expr, error) {
				if st.Q.Where == nil {
					return nil, errShape
				}
				return []sqlx.Expr{st.Q.Where}, nil
			}},
		{name: "where-after-summarize-alias", pos: "custom",
			tree:  w(func(n gen.Expr) gen.Expr { return &gen.Binary{Op: "<", X: n, Y: na} }),
			build: func(e string) string { return "T | summarize " + identOf(e) + " = count() by na | where " + e },
			extract: func(st *sqlx.Stmt) ([]sqlx.Expr, error) {
				if st.Q.Where == nil {
					return nil, errShape
				}
				return []sqlx.Expr{st.Q.Where}, nil
			}},
		{name: "join-on", pos: "custom", truth: true,
			tree: w(func(n gen.Expr) gen.Expr {
				return &gen.Binary{Op: "==", X: &gen.Name{Parts: []gen.Ident{{Name: "$left"}, {Name: "na"}}}, Y: n}
			}),
			build: func(e string) string { return "L | join kind=inner (R) on " + e },
			extract: func(st *sqlx.Stmt) ([]sqlx.Expr, error) {
				if st.Q.Join == nil {
					return nil, errShape
				}
				return []sqlx.Expr{st.Q.Join.On}, nil
			}},
		{name: "join-on-iff-condition", pos: "custom", truth: true,
			tree: w(func(n gen.Expr) gen.Expr {
				return &gen.Binary{Op: "==", X: &gen.Call{Func: "iff", Args: []gen.Expr{
					&gen.Binary{Op: ">", X: &gen.Name{Parts: []gen.Ident{{Name: "$right"}, {Name: "nb"}}}, Y: n},
					&gen.Name{Parts: []gen.Ident{{Name: "$left"}, {Name: "na"}}}, n}}, Y: one}
			}),
			build: func(e string) string { return "L | join kind=leftouter (R) on " + e },
			extract: func(st *sqlx.Stmt) ([]sqlx.Expr, error) {
				if st.Q.Join == nil {
					return nil, errShape
				}
				return []sqlx.Expr{st.Q.Join.On}, nil
			}},
		{name: "join-on-minus", pos: "custom", truth: true,
			tree: w(func(n gen.Expr) gen.Expr {
				return &gen.Binary{Op: "<", X: &gen.Name{Parts: []gen.Ident{{Name: "$right"}, {Name: "nb"}}}, Y: &gen.Unary{Op: "-", X: n}}
			}),
			build: func(e string) string { return "L | where na > 0 | join (R) on k, " + e + " | count" },
			extract: func(st *sqlx.Stmt) ([]sqlx.Expr, error) {
				for _, c := range st.CTEs {
					if c.Q.Join != nil {
						if b, ok := c.Q.Join.On.(*sqlx.Binary); ok && b.Op == "AND" {
							return []sqlx.Expr{b.Y}, nil
						}
					}
				}
				return nil, errShape
			}},
		{name: "right-side-where", pos: "custom",
			tree:  w(func(n gen.Expr) gen.Expr { return &gen.Binary{Op: "-", X: nb, Y: n} }),
			build: func(e string) string { return "T | join (R | where " + e + ") on k" },
			extract: func(st *sqlx.Stmt) ([]sqlx.Expr, error) {
				if len(st.CTEs) < 1 || st.CTEs[0].Q.Where == nil {
					return nil, errShape
				}
				return []sqlx.Expr{st.CTEs[0].Q.Where}, nil
			}},
		{name: "nested-right-side", pos: "custom",
			tree: w(func(n gen.Expr) gen.Expr { return &gen.Unary{Op: "-", X: n} }),
			build: func(e string) string {
				return "T | join (R | join kind=leftouter (C | extend z = " + e + ") on k) on k"
			},
			extract: func(st *sqlx.Stmt) ([]sqlx.Expr, error) {
				if len(st.CTEs) < 1 || len(st.CTEs[0].Q.Items) != 2 {
					return nil, errShape
				}
				return []sqlx.Expr{st.CTEs[0].Q.Items[1].X}, nil
			}},
	}
	return append(sites, c06ListSites()...)
}

// c06ListSites: the bound name alone as the first, middle or last element of every kind of list
// (sort terms, project / extend columns, group keys, aggregates, join conditions, in-list values, call arguments).
func c06ListSites() []useSite {
	ins := func(others []string, j int, e string) string {
		out := append([]string{}, others[:j]...)
		out = append(out, e)
		out = append(out, others[j:]...)
		return strings.Join(out, ", ")
	}
	insE := func(others []gen.Expr, j int, e gen.Expr) []gen.Expr {
		out := append([]gen.Expr{}, others[:j]...)
		out = append(out, e)
		return append(out, others[j:]...)
	}
	self := func(n gen.Expr) gen.Expr { return n }
	byAlias := func(q *sqlx.Select, unwrapCall bool) ([]sqlx.Expr, error) {
		for _, it := range q.Items {
			if it.HasAlias && it.Alias == "c" {
				if unwrapCall {
					f, ok := it.X.(*sqlx.Func)
					if !ok || len(f.Args) != 1 {
						return nil, errShape
					}
					return []sqlx.Expr{f.Args[0]}, nil
				}
				return []sqlx.Expr{it.X}, nil
			}
		}
		return nil, errShape
	}
	var out []useSite
	for j := 0; j < 3; j++ {
		j := j
		pos := []string{"first", "middle", "last"}[j]
		out = append(out,
			useSite{name: "sort-term-" + pos, pos: "custom", tree: self,
				build: func(e string) string { return "T | sort by " + ins([]string{"na asc", "nb"}, j, e) + " | take 5" },
				extract: func(st *sqlx.Stmt) ([]sqlx.Expr, error) {
					if len(st.Q.OrderBy) != 3 {
						return nil, errShape
					}
					return []sqlx.Expr{st.Q.OrderBy[j].X}, nil
				}},
			useSite{name: "project-column-" + pos, pos: "custom", tree: self,
				build:   func(e string) string { return "T | project " + ins([]string{"p = na", "q = nb"}, j, "c = "+e) },
				extract: func(st *sqlx.Stmt) ([]sqlx.Expr, error) { return byAlias(st.Q, false) }},
			useSite{name: "extend-column-" + pos, pos: "custom", tree: self,
				build:   func(e string) string { return "T | extend " + ins([]string{"p = na + 1", "q = nb"}, j, "c = "+e) },
				extract: func(st *sqlx.Stmt) ([]sqlx.Expr, error) { return byAlias(st.Q, false) }},
			useSite{name: "group-key-" + pos, pos: "custom", tree: self,
				build: func(e string) string {
					return "T | summarize count() by " + ins([]string{"p = na", "q = nb"}, j, "c = "+e)
				},
				extract: func(st *sqlx.Stmt) ([]sqlx.Expr, error) { return byAlias(st.Q, false) }},
			useSite{name: "aggregate-" + pos, pos: "custom", tree: self,
				build: func(e string) string {
					return "T | summarize " + ins([]string{"p = max(na)", "q = count()"}, j, "c = max("+e+")") + " by nb"
				},
				extract: func(st *sqlx.Stmt) ([]sqlx.Expr, error) { return byAlias(st.Q, true) }},
			useSite{name: "join-condition-paren-" + pos, pos: "custom", truth: true,
				tree: func(n gen.Expr) gen.Expr { return &gen.Paren{X: n} },
				build: func(e string) string {
					return "L | join kind=inner (R) on " + ins([]string{"k", "$left.na < $right.nb"}, j, e)
				},
				extract: func(st *sqlx.Stmt) ([]sqlx.Expr, error) {
					if st.Q.Join == nil {
						return nil, errShape
					}
					var conj []sqlx.Expr
					var flat func(e sqlx.Expr)
					flat = func(e sqlx.Expr) {
						if b, ok := e.(*sqlx.Binary); ok && b.Op == "AND" {
							flat(b.X)
							flat(b.Y)
							return
						}
						conj = append(conj, e)
					}
					flat(st.Q.Join.On)
					if len(conj) != 3 {
						return nil, errShape
					}
					return []sqlx.Expr{conj[j]}, nil
				}},
			useSite{name: "in-value-" + pos, pos: "where", tree: func(n gen.Expr) gen.Expr {
				return &gen.In{X: gen.Col("na"), Vals: insE([]gen.Expr{gen.Col("nb"), gen.NumLit("7", "7")}, j, n)}
			}},
			useSite{name: "call-argument-" + pos, pos: "where", tree: func(n gen.Expr) gen.Expr {
				return &gen.Call{Func: "g", Args: insE([]gen.Expr{gen.Col("na"), gen.NumLit("7", "7")}, j, n)}
			}},
		)
	}
	return out
}

type c06Params struct {
	name string
	m    map[string]string
}

var c06ParamMaps = []c06Params{
	{"none", nil},
	{"p", map[string]string{"p": "{p:Int32}"}},
	{"n-and-m", map[string]string{"n": "$1", "m": "$2"}},
	{"column-na", map[string]string{"na": "$3"}},
	{"true", map[string]string{"true": "$4", "p": "$5"}},
	{"case-variants", map[string]string{"Na": "$6", "NB": "$7", "N": "$8", "M": "$9", "TRUE": "$10"}},
}

func letsText(lets []letDef) string {
	var sb strings.Builder
	for _, l := range lets {
		fmt.Fprintf(&sb, "let %s = %s; ", l.name, gen.ExprText(l.value))
	}
	return sb.String()
}

type c06Case struct {
	lets   []letDef
	params c06Params
	site   *useSite
	ident  string // the identifier used at the site
}

func (c c06Case) source() (string, gen.Expr) {
	tree := c.site.tree(gen.Col(c.ident))
	text := gen.ExprText(gen.WrapRoot(tree, gen.Minimal))
	var q string
	if c.site.pos == "custom" {
		q = c.site.build(text)
	} else {
		for pi := range c01Positions {
			if c01Positions[pi].name == c.site.pos {
				q = c01Positions[pi].build(text)
			}
		}
	}
	return letsText(c.lets) + q, tree
}

// c06Eval compares the extracted SQL expressions with the reference interpreter over all valuations.
func c06Check(w *run.Worker, in *sem.Interner, c c06Case) {
	src, tree := c.source()
	w.Begin("binding-semantics:"+c.site.name, src)
	// a private copy per call: a tree that writes into the caller's map must not disturb later cases (C14 reports that)
	var pm map[string]string
	if c.params.m != nil {
		pm = map[string]string{}
		for k, v := range c.params.m {
			pm[k] = v
		}
	}
	opts := &pql.CompileOptions{Parameters: pm}
	var sql string
	var err error
	if !w.Try(src, func() { sql, err = opts.Compile(src) }) {
		return
	}
	extra := map[string]any{"params": c.params.name, "site": c.site.name, "ident": c.ident}
	var lv []any
	for _, l := range c.lets {
		lv = append(lv, l.name, gen.ExprText(l.value))
	}
	extra["lets"] = lv
	if err != nil {
		w.Fail("rejected:"+c.site.name, src, fmt.Sprintf("valid program with bindings rejected: %v (parameters %v)", err, c.params.m), extra)
		return
	}
	stmt, _, perr := sqlx.ParseStatement(sql, sqlx.ClickHouse)
	if perr != nil {
		w.Fail("invalid-sql:"+c.site.name, src, fmt.Sprintf("output is not valid SQL: %v\nsql: %s", perr, sql), extra)
		return
	}
	var exprs []sqlx.Expr
	var xerr error
	truth := c.site.truth
	if c.site.pos == "custom" {
		exprs, xerr = c.site.extract(stmt)
	} else {
		for pi := range c01Positions {
			if c01Positions[pi].name == c.site.pos {
				exprs, xerr = c01Positions[pi].extract(stmt)
			}
		}
	}
	if xerr != nil {
		w.Fail("shape:"+c.site.name, src, fmt.Sprintf("%v\nsql: %s", xerr, sql), extra)
		return
	}
	w.Nontrivial()
	// free variables: columns of the site and parameter placeholders
	type fv struct {
		key string
		dom []sem.Val
	}
	var vars []fv
	for _, col := range []string{"na", "nb", "$left.na", "$right.nb"} {
		vars = append(vars, fv{col, domNumQuick})
	}
	vars = append(vars, fv{"ra", domArr})
	var pnames []string
	for k := range c.params.m {
		pnames = append(pnames, k)
	}
	sort.Strings(pnames)
	for _, k := range pnames {
		vars = append(vars, fv{"param:" + c.params.m[k], []sem.Val{sem.VNull, sem.N(1), sem.N(-2)}})
	}
	// only vary what the program mentions
	used := vars[:0]
	tight := strings.ReplaceAll(src, " ", "")
	for _, v := range vars {
		name := strings.TrimPrefix(v.key, "param:")
		if strings.Contains(tight, name) || strings.Contains(sql, name) {
			used = append(used, v)
		}
	}
	vars = used
	ctx := &sem.Ctx{Env: sem.Env{}, In: in}
	idx := make([]int, len(vars))
	for {
		for i, v := range vars {
			ctx.Env[v.key] = v.dom[idx[i]]
		}
		ctx.Scope = map[string]sem.Val{}
		for _, k := range pnames {
			ctx.Scope[k] = ctx.Env["param:"+c.params.m[k]]
		}
		for _, l := range c.lets {
			ctx.Scope[l.name] = ctx.PQL(l.value)
		}
		want := ctx.PQL(tree)
		if want.K == sem.Err && strings.HasPrefix(want.S, "unknown column") {
			panic("harness: reference interpreter met " + want.S + " in " + src)
		}
		if want.K != sem.Unspec {
			for k, se := range exprs {
				got := ctx.SQL(se)
				if got.K == sem.Unspec {
					continue
				}
				bad := false
				switch {
				case want.K == sem.Err:
					bad = got.K != sem.Err
				case truth:
					bad = got.K == sem.Err || sem.IsTrue(got) != sem.IsTrue(want)
				default:
					bad = !sem.Equal(got, want)
				}
				if bad {
					var row []string
					for i, v := range vars {
						row = append(row, fmt.Sprintf("%s=%s", v.key, v.dom[idx[i]]))
					}
					w.Fail("binding:"+c.site.name+":"+rootKind(c.lets[len(c.lets)-1].value), src,
						fmt.Sprintf("with lexical scoping the expression %s evaluates to %s, emitted SQL expression #%d %s evaluates to %s on {%s} (parameters %v)\nsql: %s",
							gen.ExprText(gen.WrapRoot(tree, gen.Minimal)), want, k, sqlx.Format(se), got, strings.Join(row, ", "), c.params.m, sql), extra)
					return
				}
			}
		}
		j := 0
		for j < len(idx) {
			idx[j]++
			if idx[j] < len(vars[j].dom) {
				break
			}
			idx[j] = 0
			j++
		}
		if j == len(idx) {
			break
		}
	}
}

// ---- text laws ----

func c06Same(w *run.Worker, params map[string]string, with, without, law string) {
	w.Begin("text-law:"+law, with)
	o := &pql.CompileOptions{Parameters: params}
	var a, b string
	var ea, eb error
	if !w.Try(with, func() { a, ea = o.Compile(with); b, eb = o.Compile(without) }) {
		return
	}
	w.Nontrivial()
	if ea != nil || eb != nil {
		if (ea == nil) != (eb == nil) {
			w.Fail("law:"+law+":rejected", with, fmt.Sprintf("%q: err=%v\n%q: err=%v", with, ea, without, eb), map[string]any{"without": without, "law": law})
		}
		return
	}
	if a != b {
		w.Fail("law:"+law, with, fmt.Sprintf("outputs differ although the binding must have no effect\nwith:    %s\nwithout: %s (source %q)", a, b, without), map[string]any{"without": without, "law": law})
	}
}

// c06Between: q compiled before and after a failing call gives the same result.
func c06Between(w *run.Worker, params map[string]string, q, failing string) {
	w.Begin("text-law:failed-call-between", q)
	o := &pql.CompileOptions{Parameters: params}
	var a, b string
	var ea, eb error
	if !w.Try(q, func() {
		a, ea = o.Compile(q)
		(&pql.CompileOptions{Parameters: params}).Compile(failing)
		b, eb = o.Compile(q)
	}) {
		return
	}
	w.Nontrivial()
	if a != b || fmt.Sprint(ea) != fmt.Sprint(eb) {
		w.Fail("law:failed-call-between", q, fmt.Sprintf("%q gives a different result after the failing call %q\nbefore: %s err=%v\nafter:  %s err=%v", q, failing, a, ea, b, eb), map[string]any{"failing": failing, "law": "failed-call-between"})
	}
}

func c06Main(r *run.Runner) {
	r.Rule = "every let sequence (1..k bindings over names n, m, true, na with shadowing and chains) x every value shape (13 closed shapes incl. signed, compound, call, in, earlier binding, parameter) x 5 parameter maps x 35 use sites (every operand position, row counts, sort/summarize/extend, join conditions, nested right-hand sides) is compiled; " +
		"the SQL expression at the use site is evaluated over all valuations of columns and parameter placeholders and compared with a reference interpreter that applies lexical scoping to the generator's tree; plus text laws: unused bindings, lets after the query and non-use sites (quoted, qualified, function, table, alias names) leave the output byte-identical; " +
		"plus wide sequences: chains, independent bindings, shadowing chains of k lets and maps of k parameters (k in 1..65, thorough ..257) with the identifier used at one-hot positions; non-trivial = compiled and reached the comparison; distinct by construction"
	r.Assume = []string{"parameter snippets are atomic SQL placeholders", "a bare bound name directly after `on` is not generated (bare-name rewrite vs binding is unspecified)"}
	k := 2
	if r.Thorough() {
		k = 3
	}
	sites := c06UseSites()
	ins := make([]*sem.Interner, 64)
	// enumerate let sequences
	type seq struct {
		lets   []letDef
		params c06Params
	}
	var seqs []seq
	names := []string{"n", "m", "true", "na", "Null", "TRUE"}
	for _, pm := range c06ParamMaps[:6] {
		param := ""
		if _, ok := pm.m["p"]; ok {
			param = "p"
		}
		var rec func(prefix []letDef)
		rec = func(prefix []letDef) {
			if len(prefix) > 0 {
				seqs = append(seqs, seq{append([]letDef{}, prefix...), pm})
			}
			if len(prefix) == k {
				return
			}
			prev := ""
			if len(prefix) > 0 {
				prev = prefix[len(prefix)-1].name
			}
			for ni, name := range names {
				if len(prefix) >= 1 && ni >= 2 {
					continue // 'true' and 'na' only as first binding
				}
				shapes := c06ValueShapes(prev, param)
				if len(prefix) >= 1 {
					// deeper levels: signed literal, compound, and the shapes that chain
					shapes = append([]gen.Expr{shapes[1], shapes[2], shapes[10]}, shapes[13:]...)
				}
				if len(prefix) >= 2 {
					shapes = shapes[2:]
				}
				for _, v := range shapes {
					rec(append(prefix, letDef{name, v}))
				}
			}
		}
		rec(nil)
	}
	r.Sweep("binding-semantics", int64(len(seqs)), func(w *run.Worker, item int64) {
		if ins[w.ID] == nil {
			ins[w.ID] = sem.NewInterner()
		}
		s := seqs[item]
		last := s.lets[len(s.lets)-1].name
		for si := range sites {
			st := &sites[si]
			// the identifier used is the last binding; also an earlier (possibly shadowed) one
			c06Check(w, ins[w.ID], c06Case{lets: s.lets, params: s.params, site: st, ident: last})
			if len(s.lets) > 1 && s.lets[0].name != last {
				c06Check(w, ins[w.ID], c06Case{lets: s.lets, params: s.params, site: st, ident: s.lets[0].name})
			}
		}
		// parameters used directly at every site
		if len(s.lets) == 1 {
			for pname := range s.params.m {
				if pname != last {
					for si := range sites {
						c06Check(w, ins[w.ID], c06Case{lets: s.lets, params: s.params, site: &sites[si], ident: pname})
					}
				}
			}
		}
	})
	// wide: many bindings / parameters, the identifier used is one of them
	wseqs := c06WideSeqs(r.Thorough())
	r.Sweep("binding-semantics-wide", int64(len(wseqs)), func(w *run.Worker, item int64) {
		if ins[w.ID] == nil {
			ins[w.ID] = sem.NewInterner()
		}
		s := wseqs[item]
		for si := range sites {
			if !s.allSites && si%5 != int(item)%5 {
				continue
			}
			for _, id := range s.idents {
				c06Check(w, ins[w.ID], c06Case{lets: s.lets, params: s.params, site: &sites[si], ident: id})
			}
		}
	})
	// text laws
	queries := []string{
		"T | where `n` == 1", "T | where n.x == 1", "T | where x.n == 1", "T | where n(1) > 2", "n | count", "`n` | where a",
		"T | project n = 1", "T | extend n = a + 1", "T | summarize n = count() by b", "T | as n | count", "T | join (n) on k",
		"T | project `n`", "T | sort by `n` asc", "T | render n with (n=1)", "T | join kind=inner (R | as n) on k", "T | where a == 'n'", "T | where m[\"n\"] == 1",
		"T | where a > 1 | take 3", "T | join (R) on $left.n == $right.n",
		"T | where `n`[1] == 2", "T | extend x = -`n`, y = `n` * 2", "T | where f(`n`) > 1 and `n` in (1, 2)", "T | sort by `n`[0] asc | take 2",
		"n | join (R) on k", "n | join kind=leftouter (n) on k | count", "n | as m | join (m) on k", "n | where a | join (R | join (n) on k) on k",
		"T | join (R) on `n`", "T | summarize max(`n`) by `n`", "T | top 3 by -`n`", "T | where iff(`n` > 1, `n`, 0) == 1",
	}
	letTexts := []string{"let n = 5", "let n = -5", "let n = 1 + 2", "let n = 'x'", "let n = f(1)", "let unused = 1; let n = unused + 1"}
	type law struct{ with, without, name string }
	var laws []law
	for _, q := range queries {
		for _, l := range letTexts {
			laws = append(laws,
				law{l + "; " + q, q, "non-use-site"},
				law{q + "; " + l, q, "let-after-query"},
				law{q + "; " + l + ";", q, "let-after-query"},
			)
		}
	}
	for si := range sites {
		st := &sites[si]
		for _, pm := range c06ParamMaps[:3] {
			c := c06Case{lets: []letDef{{"n", gen.NumLit("5", "5")}}, params: pm, site: st, ident: "n"}
			withUse, _ := c.source()
			laws = append(laws,
				law{"let zz = 9; " + withUse, withUse, "unused-binding"},
				law{withUse + "; let n = 7", withUse, "let-after-query"},
				law{"let n = 7; " + withUse, withUse, "shadowed-binding-unused"},
			)
		}
	}
	r.Sweep("text-laws", int64(len(laws)), func(w *run.Worker, item int64) {
		l := laws[item]
		for _, pm := range []map[string]string{nil, {"n": "$1"}, {"unused": "$2", "q": "$3"}} {
			if l.name == "non-use-site" && pm != nil && pm["n"] != "" {
				// a parameter named n is itself a binding: still no use site in these queries
			}
			c06Same(w, pm, l.with, l.without, l.name)
		}
	})
	// a call that fails after it has bound names leaves nothing behind: the same query before and after it
	failing := []string{"let n = 10; let other = nosuch + 1; T", "let n = 5; T | where not(1, 2)", "let n = 'x'; T | join kind=bogus (R) on k", "let n = 1; T | where (", "let n = 2; let m = n; T | take 1.5",
		"let n = 3; T | where a > n; U | count", "let n = -4; T | extend x = -(a + not(1, 2))"}
	after := []string{"T | where n > 5", "T | project n", "T | extend m = n + 1 | sort by n", "let y = n + 1; T | take 1", "T | take n", "T | join (R) on n", "T | summarize max(n) by m", "T | where -n < 0 and f(-(n))[n] in (n)",
		"let m = 7; T | where m > n", "n | where other > m"}
	r.Serial(func(w *run.Worker) {
		for _, f := range failing {
			for _, q := range after {
				for _, pm := range []map[string]string{nil, {"p": "$1"}, {"m": "$2"}} {
					c06Between(w, pm, q, f)
				}
			}
		}
	})
	// verbatim parameters
	r.Serial(func(w *run.Worker) {
		for _, snip := range []string{"{p:Int32}", "$1", "?", "{p: String}"} {
			src := "T | where a == p and -p < b | take p"
			w.Begin("parameter-verbatim", src)
			w.Nontrivial()
			o := &pql.CompileOptions{Parameters: map[string]string{"p": snip}}
			sql, err := o.Compile(src)
			if err != nil {
				w.Fail("parameter:rejected", src, err.Error(), nil)
				continue
			}
			if strings.Count(sql, snip) != 3 {
				w.Fail("parameter:not-verbatim", src, fmt.Sprintf("parameter snippet %q does not appear three times verbatim\nsql: %s", snip, sql), map[string]any{"snippet": snip})
			}
		}
	})
	r.Extra["bounds"] = map[string]any{"max_lets": k, "let_sequences_x_parameter_maps": len(seqs), "use_sites": len(sites), "text_laws": len(laws)}
	s0, _ := c06Case{lets: []letDef{{"n", &gen.Unary{Op: "-", X: gen.NumLit("5", "5")}}}, site: &sites[1], ident: "n"}.source()
	r.Sample(s0)
	r.Sample(laws[0].with)
}

type c06Wide struct {
	lets     []letDef
	params   c06Params
	idents   []string
	allSites bool
}

func wideParams(k int) c06Params {
	m := map[string]string{}
	for i := 0; i < k; i++ {
		m[fmt.Sprintf("q%dx", i)] = fmt.Sprintf("{q%dx:Int32}", i)
	}
	return c06Params{fmt.Sprintf("wide-%d", k), m}
}

func init() {
	for _, k := range wideSizes(true) {
		c06ParamMaps = append(c06ParamMaps, wideParams(k))
	}
}

// c06WideSeqs: k bindings (a chain, independent ones, shadowing chains) or k parameters, for every wide size.
func c06WideSeqs(thorough bool) []c06Wide {
	var out []c06Wide
	one := gen.NumLit("1", "1")
	plus1 := func(name string) gen.Expr { return &gen.Binary{Op: "+", X: gen.Col(name), Y: one} }
	v := func(p string, i int) string { return fmt.Sprintf("%s%d", p, i) }
	for _, k := range wideSizes(thorough) {
		small := k <= 16
		if k <= 65 {
			chain := []letDef{{"v0", one}}
			shadow := []letDef{{"n", one}}
			alt := []letDef{{"n", one}}
			for i := 1; i < k; i++ {
				chain = append(chain, letDef{v("v", i), plus1(v("v", i-1))})
				shadow = append(shadow, letDef{"n", plus1("n")})
				alt = append(alt, letDef{[]string{"n", "m"}[i%2], plus1([]string{"n", "m"}[(i+1)%2])})
			}
			out = append(out,
				c06Wide{chain, c06ParamMaps[0], []string{v("v", k-1), "v0", v("v", k/2)}, small},
				c06Wide{shadow, c06ParamMaps[0], []string{"n"}, small},
				c06Wide{alt, c06ParamMaps[1], []string{"n", "m"}[:min(k, 2)], small},
			)
		}
		var indep []letDef
		for i := 0; i < k; i++ {
			indep = append(indep, letDef{v("w", i), gen.NumLit(fmt.Sprint(100+i), fmt.Sprint(100+i))})
		}
		var ids, pids []string
		for _, j := range hotPositions(k) {
			ids = append(ids, v("w", j))
			pids = append(pids, fmt.Sprintf("q%dx", j))
		}
		out = append(out, c06Wide{indep, c06ParamMaps[0], ids, false})
		// k parameters and one let that uses the last of them
		pm := wideParams(k)
		out = append(out, c06Wide{[]letDef{{"z", plus1(fmt.Sprintf("q%dx", k-1))}}, pm, append([]string{"z"}, pids...), false})
	}
	return out
}

func c06Replay(w *run.Worker, v *run.Viol) {
	if strings.HasPrefix(v.Check, "text-law") {
		without, _ := v.Extra["without"].(string)
		law, _ := v.Extra["law"].(string)
		if law == "failed-call-between" {
			failing, _ := v.Extra["failing"].(string)
			for _, pm := range []map[string]string{nil, {"p": "$1"}, {"m": "$2"}} {
				c06Between(w, pm, v.Source, failing)
			}
			return
		}
		for _, pm := range []map[string]string{nil, {"n": "$1"}, {"unused": "$2", "q": "$3"}} {
			c06Same(w, pm, v.Source, without, law)
		}
		return
	}
	if v.Check == "parameter-verbatim" {
		snip, _ := v.Extra["snippet"].(string)
		o := &pql.CompileOptions{Parameters: map[string]string{"p": snip}}
		sql, err := o.Compile(v.Source)
		if err != nil || strings.Count(sql, snip) != 3 {
			w.Fail(v.Sig, v.Source, sql, nil)
		}
		return
	}
	var c c06Case
	if lv, ok := v.Extra["lets"].([]any); ok {
		for i := 0; i+1 < len(lv); i += 2 {
			name, _ := lv[i].(string)
			text, _ := lv[i+1].(string)
			e, err := gen.ReadExpr(text)
			if err != nil {
				w.Fail("replay-unreadable", v.Source, err.Error(), nil)
				return
			}
			c.lets = append(c.lets, letDef{name, e})
		}
	}
	pn, _ := v.Extra["params"].(string)
	for _, pm := range c06ParamMaps {
		if pm.name == pn {
			c.params = pm
		}
	}
	sn, _ := v.Extra["site"].(string)
	sites := c06UseSites()
	for i := range sites {
		if sites[i].name == sn {
			c.site = &sites[i]
		}
	}
	c.ident, _ = v.Extra["ident"].(string)
	if c.site == nil || len(c.lets) == 0 {
		w.Fail("replay-unreadable", v.Source, "incomplete record", nil)
		return
	}
	c06Check(w, sem.NewInterner(), c)
}

// identOf returns the bound identifier used in a printed use-site expression: the
// one name among the bindings' names (n, m, true, p) that occurs as a lexeme.
func identOf(e string) string {
	for _, f := range strings.Fields(e) {
		switch f {
		case "n", "m", "p", "true":
			return f
		}
	}
	return "n"
}
