package main

import (
	"fmt"
	"regexp"
	"strings"
	"sync"

	"github.com/runreveal/pql/parser"
	"verif/harness/astx"
	"verif/harness/enum"
	"verif/harness/gen"
	"verif/harness/reftok"
	"verif/harness/run"
)

func init() {
	register("C07", "exploration", func(r *run.Runner) { grammarMain(r, false) }, func(w *run.Worker, v *run.Viol) { grammarReplay(w, v, false) })
}

// exprKinds is the node-kind alphabet of the expression-tree enumerations of C07/C10/C11.
func exprKinds() []gen.NodeKind {
	k := gen.AllBinKinds()
	k = append(k, gen.In1Kind, gen.In2Kind, gen.NegKind, gen.PosKind, gen.IndexKind,
		gen.CallKind("f", 0), gen.CallKind("f", 1), gen.CallKind("f", 2), gen.ParenKind)
	return k
}

func leafKinds() []gen.Expr {
	return []gen.Expr{
		gen.Col("a"),
		gen.NumLit("007", "7"),
		gen.StrLit("s"),
		gen.QCol("q r"),
		&gen.Name{Parts: []gen.Ident{{Name: "t"}, {Name: "c"}}},
		gen.NumLit(".5e1", "0.5e1"),
	}
}

func whereProgram(e gen.Expr) *gen.Program {
	return gen.Single(&gen.Pipeline{Source: gen.Ident{Name: "T"}, Ops: []gen.Op{&gen.Where{Kw: "where", Pred: e}}})
}

var layoutSeps = []string{" ", "", "\n", "\t", " // c ; | \n", " \r\n ", "//\n"}

// grammarMain drives C07 (spans ignored) and the success part of C10 (spans compared).
func grammarMain(r *run.Runner, spans bool) {
	what := "tree (ignoring positions)"
	if spans {
		what = "tree including every recorded span and every node's Span()"
	}
	r.Rule = "every derivation of the stated enumerations (expression trees over 24 node kinds up to N internal nodes with minimal/full/redundant parentheses; every operator production with every combination of optional parts; pipelines of two operators; lets and empty statements) " +
		"is printed in the stated layouts, parsed by parser.Parse and compared with the " + what + " prescribed by the generator; non-trivial = the printed program has at least 3 lexemes; cases are distinct by construction (derivation x layout)"
	r.Assume = []string{"the grammar of DESIGN.md section 1 is the documented grammar", "generator gen (printer, needsParen rules, expected tree) is correct; it is validated by the reference tokenizer re-lexing every printed source"}
	N := 3
	layoutGaps := 6
	if r.Thorough() {
		N = 4
		layoutGaps = 8
	}
	shapes := gen.NewShapes(exprKinds(), N-1)
	bounds := map[string]any{"expr_internal_nodes": N, "node_kinds": len(exprKinds())}
	total := int64(0)
	for n := 1; n <= N; n++ {
		items := shapes.Items(n)
		total += shapes.Count(n)
		n := n
		modes := []gen.ParenMode{gen.Minimal}
		if n <= 2 {
			modes = []gen.ParenMode{gen.Minimal, gen.Full, gen.Redundant}
		}
		r.Sweep(fmt.Sprintf("expr-trees-%d", n), int64(len(items)), func(w *run.Worker, item int64) {
			shapes.Do(items[item], func(sh gen.Expr) bool {
				e := gen.Instantiate(sh, gen.FreshCols())
				for _, m := range modes {
					pr := gen.Print(whereProgram(gen.WrapRoot(e, m)))
					grammarCase(w, pr.Layout(pr.Uniform(" ")), spans, "expr")
					if n <= 2 {
						// every leaf the same identifier, in positions where the parser looks ahead for `name =`
						same := gen.WrapRoot(gen.Instantiate(sh, func(int) gen.Expr { return gen.Col("a") }), m)
						for _, prog := range []*gen.Program{
							gen.Single(&gen.Pipeline{Source: gen.Ident{Name: "T"}, Ops: []gen.Op{&gen.Extend{Cols: []gen.Column{{X: same}, {X: same}}}}}),
							gen.Single(&gen.Pipeline{Source: gen.Ident{Name: "a"}, Ops: []gen.Op{&gen.Summarize{Cols: []gen.Column{{X: same}}, By: []gen.Column{{X: same}}, HasBy: true}}}),
						} {
							ps := gen.Print(prog)
							grammarCase(w, ps.Layout(ps.Uniform(" ")), spans, "same-leaves")
						}
					}
					if n <= 2 && m == gen.Minimal {
						// the tree does not depend on layout: no blanks at all, newlines, comments
						for _, sep := range layoutSeps[1:] {
							grammarCase(w, pr.Layout(pr.Uniform(sep)), spans, "expr-layout")
						}
						// one gap at a time: a line break (or a comment, a tab) in exactly one place of an otherwise blank-free source
						for _, one := range []string{"\n", "\r\n    ", " // c\n", "\t", "\n\n", " // c\n // d\n", "\n// c\n\n  "} {
							base := pr.Uniform("")
							for gi := range base {
								seps := append([]string{}, base...)
								seps[gi] = one
								grammarCase(w, pr.Layout(seps), spans, "expr-layout-one-gap")
							}
						}
					}
				}
				return !w.Stopped()
			})
		})
	}
	bounds["expr_trees"] = total
	// leaf kinds on trees with <= 2 internal nodes
	lk := leafKinds()
	for n := 0; n <= 2; n++ {
		var list []gen.Expr
		shapes.Level(n, func(e gen.Expr) bool { list = append(list, e); return true })
		r.Sweep(fmt.Sprintf("expr-leaves-%d", n), int64(len(list)), func(w *run.Worker, item int64) {
			sh := list[item]
			nl := gen.CountLeaves(sh)
			if nl > 4 {
				return
			}
			e := enum.Strings{Alpha: make([]string, len(lk)), MaxLen: nl, Split: 0}
			e.Do(0, func(_ []byte, syms []int) bool {
				if len(syms) != nl {
					return true
				}
				x := gen.Instantiate(sh, func(i int) gen.Expr { return lk[syms[i]] })
				pr := gen.Print(whereProgram(gen.WrapRoot(x, gen.Minimal)))
				grammarCase(w, pr.Layout(pr.Uniform(" ")), spans, "leaves")
				return !w.Stopped()
			})
		})
	}
	// corpus x uniform layouts, one-gap-at-a-time, and all assignments for short programs
	corpus := gen.Programs()
	bounds["corpus_programs"] = len(corpus)
	bounds["layout_separators"] = layoutSeps
	bounds["all_layouts_up_to_gaps"] = layoutGaps
	r.Sweep("corpus-layouts", int64(len(corpus)), func(w *run.Worker, item int64) {
		pr := gen.Print(corpus[item])
		for _, sep := range layoutSeps {
			grammarCase(w, pr.Layout(pr.Uniform(sep)), spans, "layout")
		}
		// leading / trailing blank
		s := pr.Uniform(" ")
		s[0], s[len(s)-1] = " \n// lead\n", "\t// trail"
		grammarCase(w, pr.Layout(s), spans, "layout")
		// the program directly after Parse calls that fail on a part of it (cut inside brackets, inside the pipeline,
		// inside an expression): a failing call leaves nothing behind (the replay keeps the preceding inputs)
		for _, cut := range []int{len(pr.Lexemes) / 3, len(pr.Lexemes) / 2, len(pr.Lexemes) * 2 / 3, len(pr.Lexemes) - 1} {
			if cut < 1 {
				continue
			}
			var sb strings.Builder
			for _, l := range pr.Lexemes[:cut] {
				sb.WriteString(l)
				sb.WriteByte(' ')
			}
			part := sb.String()
			for _, tail := range []string{"", "( [ (", ") ]", "| |"} {
				w.Begin("parse-failing-neighbour", part+tail)
				if !w.Try(part+tail, func() { parser.Parse(part + tail) }) {
					return
				}
				grammarCase(w, pr.Layout(pr.Uniform(" ")), spans, "after-failing-parse")
			}
		}
		// the same text with white space added around it, directly after the text itself (a tree or a message that
		// is remembered under a normalised text shows here; the replay keeps the preceding inputs)
		for _, sep := range []string{" ", ""} {
			for _, pad := range []string{"\n", "\t", " ", "\r\n", "\n\n  "} {
				for k := 0; k < 4; k++ {
					s := pr.Uniform(sep)
					if k&1 != 0 {
						s[0] = pad
					}
					if k&2 != 0 {
						s[len(s)-1] = pad
					}
					grammarCase(w, pr.Layout(s), spans, "layout-padded")
				}
			}
		}
		gaps := len(pr.Lexemes) - 1
		for g := 1; g <= gaps; g++ {
			for _, sep := range layoutSeps[1:] {
				s := pr.Uniform(" ")
				s[g] = sep
				grammarCase(w, pr.Layout(s), spans, "layout")
			}
		}
		if gaps >= 1 && gaps <= layoutGaps {
			e := enum.Strings{Alpha: layoutSeps, MaxLen: gaps, Split: 0}
			e.Do(0, func(_ []byte, syms []int) bool {
				if len(syms) != gaps {
					return true
				}
				s := make([]string, gaps+2)
				for i, a := range syms {
					s[i+1] = layoutSeps[a]
				}
				grammarCase(w, pr.Layout(s), spans, "layout")
				return !w.Stopped()
			})
		}
	})
	// scale: many sibling groups, long pipelines, deep nesting
	scaleThorough = r.Thorough()
	scale := scalePrograms()
	bounds["scale_programs"] = len(scale)
	bounds["scale_sizes"] = scaleSizes
	r.Sweep("scale", int64(len(scale)), func(w *run.Worker, item int64) {
		pr := gen.Print(scale[item])
		grammarCase(w, pr.Layout(pr.Uniform(" ")), spans, "scale")
		grammarCase(w, pr.Layout(pr.Uniform("")), spans, "scale")
	})
	r.Extra["bounds"] = bounds
	pr := gen.Print(corpus[len(corpus)/2])
	r.Sample(pr.Layout(pr.Uniform(" ")).Source)
	pr = gen.Print(corpus[len(corpus)/3])
	r.Sample(pr.Layout(pr.Uniform(" // c ; | \n")).Source)
}

func grammarReplay(w *run.Worker, v *run.Viol, spans bool) {
	src := v.Source
	w.Begin("grammar-replay", src)
	var stmts []parser.Statement
	var err error
	if !w.Try(src, func() { stmts, err = parser.Parse(src) }) {
		return
	}
	if err != nil {
		if !spans {
			w.Fail("grammar:rejected", src, err.Error(), nil)
		}
		return
	}
	str := func(k string) string { s, _ := v.Extra[k].(string); return s }
	if spans && strings.HasPrefix(v.Sig, "span:law:") {
		var lex [][2]int
		for _, t := range reftok.Scan(src) {
			lex = append(lex, [2]int{t.Start, t.End})
		}
		multi := map[string]bool{}
		if ms, ok := v.Extra["multi_token_fields"].([]any); ok {
			for _, m := range ms {
				if s, ok := m.(string); ok {
					multi[s] = true
				}
			}
		}
		if ms, ok := v.Extra["multi_token_fields"].([]string); ok {
			for _, m := range ms {
				multi[m] = true
			}
		}
		spanLawsCore(w, src, lex, multi, stmts, func() map[string]any { return nil })
		return
	}
	if got := describeLocked(stmts, false); got != str("expected_nospans") {
		if !spans {
			w.Fail(v.Sig, src, "tree differs\nwant "+str("expected_nospans")+"\ngot  "+got, nil)
		}
		return
	}
	if !spans {
		return
	}
	if got := describeLocked(stmts, true); got != str("expected") {
		w.Fail(v.Sig, src, "spans differ\nwant "+str("expected")+"\ngot  "+got, nil)
		return
	}
	if got := nodeSpans(w, stmts); got != str("node_spans") {
		w.Fail(v.Sig, src, "node spans differ\nwant "+str("node_spans")+"\ngot  "+got, nil)
	}
}

var describeMu sync.Mutex

func describeLocked(x any, withSpans bool) string {
	describeMu.Lock()
	defer describeMu.Unlock()
	if withSpans {
		return astx.Describe(x)
	}
	return astx.DescribeNoSpans(x)
}

// nodeSpans lists Span() of every node in pre-order.
func nodeSpans(w *run.Worker, stmts []parser.Statement) string {
	var sb strings.Builder
	for _, s := range stmts {
		astx.Pairs(s, s, func(n, _ parser.Node) {
			w.Try("", func() { fmt.Fprintf(&sb, "%s%v ", astx.TypeName(n), n.Span()) })
		})
	}
	return sb.String()
}

func grammarExtra(w *run.Worker, l *gen.Laid) map[string]any {
	var sb strings.Builder
	for _, s := range l.Tree {
		astx.Pairs(s, s, func(n, _ parser.Node) {
			fmt.Fprintf(&sb, "%s%v ", astx.TypeName(n), l.Ranges[n])
		})
	}
	return map[string]any{"expected": describeLocked(l.Tree, true), "expected_nospans": describeLocked(l.Tree, false), "node_spans": sb.String()}
}

var indexRe = regexp.MustCompile(`\[\d+\]`)

func pathSig(path string) string {
	p := path
	if k := strings.Index(p, ": "); k >= 0 {
		p = p[:k]
	}
	return indexRe.ReplaceAllString(p, "")
}

func grammarCase(w *run.Worker, l *gen.Laid, spans bool, family string) {
	src := l.Source
	name := "parse-vs-grammar"
	if spans {
		name = "spans-vs-generator"
	}
	w.Begin(name+":"+family, src)
	if len(l.Lexemes) >= 3 {
		w.Nontrivial()
	}
	// self-check of the generator: the reference tokenizer must read back exactly the printed lexemes
	rt := reftok.Scan(src)
	if len(rt) != len(l.Lexemes) {
		w.HarnessError(fmt.Sprintf("printer self-check: %d lexemes printed, reference tokenizer reads %d in %q", len(l.Lexemes), len(rt), src))
		return
	}
	for i := range rt {
		if rt[i].Start != l.Lexemes[i].Start || rt[i].End != l.Lexemes[i].End {
			w.HarnessError(fmt.Sprintf("printer self-check: lexeme %d printed at [%d,%d), read at [%d,%d) in %q", i, l.Lexemes[i].Start, l.Lexemes[i].End, rt[i].Start, rt[i].End, src))
			return
		}
	}
	var stmts []parser.Statement
	var err error
	if !w.Try(src, func() { stmts, err = parser.Parse(src) }) {
		return
	}
	extra := func() map[string]any { return grammarExtra(w, l) }
	if err != nil {
		if !spans {
			w.Fail("grammar:rejected", src, fmt.Sprintf("program of the grammar rejected: %v", err), extra())
		}
		return
	}
	var exp any = l.Tree
	if spans && !spanLaws(w, l, stmts, extra) {
		return
	}
	if ok, path := astx.EqualShift(exp, any(stmts), 0, true); !ok {
		if !spans {
			w.Fail("grammar:tree:"+pathSig(path), src, fmt.Sprintf("tree differs at %s\nwant %s\ngot  %s", path, describeLocked(l.Tree, true), describeLocked(stmts, true)), extra())
		}
		return
	}
	if !spans {
		return
	}
	if ok, path := astx.EqualShift(exp, any(stmts), 0, false); !ok {
		w.Fail("span:field:"+pathSig(path), src, fmt.Sprintf("recorded span differs at %s\nwant %s\ngot  %s", path, describeLocked(l.Tree, true), describeLocked(stmts, true)), extra())
		return
	}
	for i := range stmts {
		bad := false
		astx.Pairs(l.Tree[i], stmts[i], func(e, g parser.Node) {
			if bad {
				return
			}
			want, ok := l.Ranges[e]
			if !ok {
				return
			}
			var sp parser.Span
			if !w.Try(src, func() { sp = g.Span() }) {
				bad = true
				return
			}
			if sp != want {
				bad = true
				w.Fail("span:node:"+astx.TypeName(g), src, fmt.Sprintf("%s.Span() = %v, want %v = %q (first to last lexeme)", astx.TypeName(g), sp, want, src[want.Start:want.End]), extra())
			}
		})
	}
}

// spanLaws: laws about the recorded positions that hold for whatever tree the parser built (they do not
// need the prescribed tree): every recorded span starts and ends on lexeme boundaries, every span field
// except a nulls clause designates exactly one lexeme, a statement spans from its first to its last
// lexeme, and the operators of a pipeline tile it from pipe to pipe.
func spanLaws(w *run.Worker, l *gen.Laid, stmts []parser.Statement, extra func() map[string]any) bool {
	var lex [][2]int
	single := map[[2]int]bool{}
	for _, lx := range l.Lexemes {
		lex = append(lex, [2]int{lx.Start, lx.End})
		single[[2]int{lx.Start, lx.End}] = true
	}
	// fields that cover several tokens by design (`sort by`, `nulls first`, ...): those of the prescribed tree
	multi := map[string]bool{}
	var names []string
	astx.Spans(l.Tree, func(path string, x parser.Span) {
		if x.IsValid() && x.End > x.Start && !single[[2]int{x.Start, x.End}] && !multi[pathSig(path)] {
			multi[pathSig(path)] = true
			names = append(names, pathSig(path))
		}
	})
	return spanLawsCore(w, l.Source, lex, multi, stmts, func() map[string]any {
		e := extra()
		e["multi_token_fields"] = names
		return e
	})
}

type lexSpan struct{ Start, End int }

func spanLawsCore(w *run.Worker, src string, lexemes [][2]int, multi map[string]bool, stmts []parser.Statement, extra func() map[string]any) bool {
	l := struct{ Lexemes []lexSpan }{}
	for _, x := range lexemes {
		l.Lexemes = append(l.Lexemes, lexSpan{x[0], x[1]})
	}
	starts, ends, single := map[int]bool{}, map[int]bool{}, map[[2]int]bool{}
	type group struct{ first, last int }
	var groups []group
	cur := group{-1, -1}
	for i, lx := range l.Lexemes {
		starts[lx.Start], ends[lx.End] = true, true
		single[[2]int{lx.Start, lx.End}] = true
		if src[lx.Start:lx.End] == ";" {
			if cur.first >= 0 {
				groups = append(groups, cur)
			}
			cur = group{-1, -1}
			continue
		}
		if cur.first < 0 {
			cur.first = i
		}
		cur.last = i
	}
	if cur.first >= 0 {
		groups = append(groups, cur)
	}
	ok := true
	for _, st := range stmts {
		astx.Spans(st, func(path string, x parser.Span) {
			if !ok || !x.IsValid() || x.End <= x.Start {
				return
			}
			if x.End > len(src) || !starts[x.Start] || !ends[x.End] {
				ok = false
				w.Fail("span:law:not-on-token-boundary:"+pathSig(path), src, fmt.Sprintf("recorded span %s = %v does not start and end on token boundaries", path, x), extra())
				return
			}
			if !single[[2]int{x.Start, x.End}] && !multi[pathSig(path)] {
				ok = false
				w.Fail("span:law:field-covers-several-tokens:"+pathSig(path), src, fmt.Sprintf("recorded span %s = %v = %q is not one token", path, x, src[x.Start:x.End]), extra())
			}
		})
		if !ok {
			return false
		}
	}
	if len(groups) != len(stmts) {
		return true // statement count is C07's and C15's business
	}
	for i, st := range stmts {
		g := groups[i]
		want := parser.Span{Start: l.Lexemes[g.first].Start, End: l.Lexemes[g.last].End}
		var sp parser.Span
		if !w.Try(src, func() { sp = st.Span() }) {
			return false
		}
		if sp != want {
			w.Fail("span:law:statement:"+astx.TypeName(st), src, fmt.Sprintf("statement %d: Span() = %v, its first to last token is %v = %q", i, sp, want, src[want.Start:want.End]), extra())
			return false
		}
		te, isTab := st.(*parser.TabularExpr)
		if !isTab {
			continue
		}
		// top-level pipes of the statement
		var pipes []int
		depth := 0
		for k := g.first; k <= g.last; k++ {
			switch src[l.Lexemes[k].Start:l.Lexemes[k].End] {
			case "(", "[":
				depth++
			case ")", "]":
				depth--
			case "|":
				if depth == 0 {
					pipes = append(pipes, k)
				}
			}
		}
		if len(pipes) != len(te.Operators) {
			continue
		}
		for k, op := range te.Operators {
			last := g.last
			if k+1 < len(pipes) {
				last = pipes[k+1] - 1
			}
			want := parser.Span{Start: l.Lexemes[pipes[k]].Start, End: l.Lexemes[last].End}
			var sp parser.Span
			if !w.Try(src, func() { sp = op.Span() }) {
				return false
			}
			if sp != want {
				w.Fail("span:law:operator:"+astx.TypeName(op), src, fmt.Sprintf("operator %d (%s): Span() = %v, from its pipe to the token before the next pipe is %v = %q", k, astx.TypeName(op), sp, want, src[want.Start:want.End]), extra())
				return false
			}
		}
	}
	return true
}
