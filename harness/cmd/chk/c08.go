package main

import (
	"fmt"
	"strings"

	"github.com/runreveal/pql/parser"
	"verif/harness/astx"
	"verif/harness/enum"
	"verif/harness/gen"
	"verif/harness/reftok"
	"verif/harness/run"
)

func init() { register("C08", "exploration", c08Main, c08Replay) }

var lexA = []string{"T", "|", "where", "project", "summarize", "join", "render", "with", "on", "by", "let", "as", "kind", "a", "1", "'x'",
	"(", ")", "[", "]", ",", "=", "==", "-", "in", ";", ".", "!", "`q r`"}
var lexB = []string{"T", "|", "sort", "by", "a", "asc", "desc", "nulls", "first", "last", "take", "top", "1", "1.5", ",", "count", "extend", "=",
	"summarize", "(", ")", ";"}

// tokenSweeps enumerates all space-separated lexeme sequences up to the tier's
// length over the two alphabets and calls fn on every source text.
var lexC = []string{"a", "f", "(", ")", "[", "]", ",", "=", "1", "in", "-", ".", "by", "`q r`"}
var lexCPrefixes = []string{"T | where ", "T | summarize ", "T | extend x = ", "T | join ( R ) on "}

func tokenSweeps(r *run.Runner, quickL, thoroughL int, fn func(w *run.Worker, src string)) map[string]any {
	L := quickL
	if r.Thorough() {
		L = thoroughL
	}
	bounds := map[string]any{}
	{
		al := make([]string, len(lexC))
		for i, s := range lexC {
			al[i] = s + " "
		}
		e := enum.Strings{Alpha: al, MaxLen: L + 2, Split: 2}
		bounds["lexemesC"] = map[string]any{"alphabet": lexC, "prefixes": lexCPrefixes, "max_tokens_after_prefix": L + 2, "sequences_per_prefix": e.Total()}
		for _, pre := range lexCPrefixes {
			pre := pre
			r.Sweep(fmt.Sprintf("lexemesC-%q-upto-%d", pre, L+2), e.Items(), func(w *run.Worker, item int64) {
				e.Do(item, func(buf []byte, _ []int) bool {
					fn(w, pre+string(buf))
					return !w.Stopped()
				})
			})
		}
	}
	for _, a := range []struct {
		name  string
		alpha []string
	}{{"lexemesA", lexA}, {"lexemesB", lexB}} {
		al := make([]string, len(a.alpha))
		for i, s := range a.alpha {
			al[i] = s + " "
		}
		e := enum.Strings{Alpha: al, MaxLen: L, Split: 2}
		bounds[a.name] = map[string]any{"alphabet": a.alpha, "max_tokens": L, "sequences": e.Total()}
		r.Sweep(fmt.Sprintf("%s-upto-%d", a.name, L), e.Items(), func(w *run.Worker, item int64) {
			e.Do(item, func(buf []byte, _ []int) bool {
				fn(w, string(buf))
				return !w.Stopped()
			})
		})
		if r.Thorough() {
			// one more token with the prefix "T |" fixed
			e2 := enum.Strings{Alpha: al, MaxLen: L - 1, Split: 2}
			bounds[a.name+"_prefixed"] = map[string]any{"prefix": "T |", "max_tokens": L + 1, "sequences": e2.Total()}
			r.Sweep(fmt.Sprintf("%s-prefixed-%d", a.name, L+1), e2.Items(), func(w *run.Worker, item int64) {
				e2.Do(item, func(buf []byte, _ []int) bool {
					fn(w, "T | "+string(buf))
					return !w.Stopped()
				})
			})
		}
	}
	return bounds
}

func corruptionLexemes() []string {
	seen := map[string]bool{}
	var out []string
	for _, l := range append(append([]string{}, lexA...), lexB...) {
		if !seen[l] {
			seen[l] = true
			out = append(out, l)
		}
	}
	// characters that are no token and no white space (a scanner that skips one accepts a source with a token dropped)
	return append(out, "'unterminated", "0x", "`q", "+", "and", "$left.k", "\u2020", "\u0120", "\u2209", "\u00a0", "\u0085", "\u200b", "\x0c", "\x00", "#", "\\")
}

// corruptionSweep applies every single-token edit (thorough: every pair of edits on
// a sub-corpus) to every corpus program and calls fn on each result.
// corruptionSeps are the separators the corrupted lexeme lists are joined with.
var corruptionSeps = []string{" "}

func corruptionSweep(r *run.Runner, fn0 func(w *run.Worker, src string)) map[string]any {
	fn := func(w *run.Worker, lexemes string) {
		for _, sep := range corruptionSeps {
			if sep == " " {
				fn0(w, lexemes)
			} else {
				fn0(w, strings.ReplaceAll(lexemes, " ", sep))
			}
		}
	}
	corpus := gen.Programs()
	if !r.Thorough() {
		// quick: the `let N = 7; <query>` programs repeat queries that are in the corpus without the let
		kept := corpus[:0:0]
		for _, p := range corpus {
			if !gen.IsCoincidingLetProgram(p) {
				kept = append(kept, p)
			}
		}
		corpus = kept
	}
	ins := corruptionLexemes()
	edits := func(lex []string, emit func([]string)) {
		n := len(lex)
		for i := 0; i < n; i++ {
			emit(append(append([]string{}, lex[:i]...), lex[i+1:]...))                   // deletion
			emit(append(append(append([]string{}, lex[:i+1]...), lex[i]), lex[i+1:]...)) // duplication
			emit(lex[:i])                                                                // truncation
			if i+1 < n {
				t := append([]string{}, lex...)
				t[i], t[i+1] = t[i+1], t[i]
				emit(t) // transposition
			}
		}
		// duplication of a group of 2-4 adjacent tokens (a clause written twice)
		for g := 2; g <= 4; g++ {
			for i := 0; i+g <= n; i++ {
				t := append([]string{}, lex[:i+g]...)
				t = append(t, lex[i:i+g]...)
				emit(append(t, lex[i+g:]...))
			}
		}
		for i := 0; i < n; i++ {
			// replacement of a token by a malformed or foreign lexeme
			for _, x := range []string{"1e-", "1e", "0x", "1.5.", "'unterminated", "`q", "!", "`q r`", "$left", "1", "by", "("} {
				t := append([]string{}, lex...)
				t[i] = x
				emit(t)
			}
		}
		for g := 0; g <= n; g++ {
			for _, x := range ins {
				t := append(append(append([]string{}, lex[:g]...), x), lex[g:]...)
				emit(t)
			}
		}
	}
	r.Sweep("corruptions-1", int64(len(corpus)), func(w *run.Worker, item int64) {
		lex := gen.Print(corpus[item]).Lexemes
		fn(w, strings.Join(lex, " "))
		edits(lex, func(t []string) {
			if !w.Stopped() {
				fn(w, strings.Join(t, " "))
			}
		})
	})
	b := map[string]any{"corpus_programs": len(corpus), "inserted_lexemes": len(ins), "edits": "deletion, duplication, adjacent transposition, truncation, insertion at every gap"}
	if r.Thorough() {
		sub := 0
		var idx []int
		for i := range corpus {
			if len(gen.Print(corpus[i]).Lexemes) <= 12 && i%3 == 0 {
				idx = append(idx, i)
				sub++
			}
		}
		b["pair_edit_programs"] = sub
		r.Sweep("corruptions-2", int64(len(idx)), func(w *run.Worker, item int64) {
			lex := gen.Print(corpus[idx[item]]).Lexemes
			edits(lex, func(t []string) {
				t1 := append([]string{}, t...)
				edits(t1, func(t2 []string) {
					if !w.Stopped() {
						fn(w, strings.Join(t2, " "))
					}
				})
			})
		})
	}
	return b
}

func c08Main(r *run.Runner) {
	r.Rule = "every space-separated lexeme sequence up to L tokens over two lexeme alphabets, and every single-token corruption (thorough: pairs) of every grammar-corpus program, is parsed; " +
		"whenever parser.Parse succeeds the returned tree is printed back to tokens by an independent printer (exported fields only) and compared with parser.Scan(source) minus the three permitted absences; " +
		"non-trivial = Parse succeeded on a source with at least 2 tokens (the comparison was reached); distinct by construction"
	r.Assume = []string{"tree printer c08print reads exported fields only; keyword synonyms are accepted as alternatives"}
	scaleThorough = r.Thorough()
	scale := scalePrograms()
	r.Sweep("scale", int64(len(scale)), func(w *run.Worker, item int64) {
		pr := gen.Print(scale[item])
		c08One(w, pr.Layout(pr.Uniform(" ")).Source)
	})
	// long string / name bodies with one special byte (what the lexer must reject, the parser must not accept)
	var lens []int
	for n := 0; n <= 70; n += 1 {
		lens = append(lens, n)
	}
	lens = append(lens, 127, 128, 129, 255, 256, 257, 1000)
	r.Sweep("long-strings", int64(len(lens)), func(w *run.Worker, item int64) {
		n := lens[item]
		for _, fill := range []string{"A", " ", "x"} {
			for _, special := range []string{"\n", "\r\n", "\\", "'", "\"", "`", "\\n"} {
				for _, pos := range []int{0, n / 2, n} {
					body := strings.Repeat(fill, pos) + special + strings.Repeat(fill, n-pos)
					for _, q := range []string{"'", "\"", "`"} {
						c08One(w, "let b = "+q+body+q+";\nT | where m == b | take 5")
						c08One(w, "T | where m == "+q+body+q+" | project "+q+body+q)
					}
				}
			}
		}
	})
	// the large enumerations last: the families above must not be starved by the tier deadline
	b1 := tokenSweeps(r, 4, 6, c08One)
	// joined with blanks and with an empty comment line (what follows a comment is still part of the source)
	corruptionSeps = []string{" ", " //\n"}
	b2 := corruptionSweep(r, c08One)
	corruptionSeps = []string{" "}
	r.Extra["bounds"] = map[string]any{"token_sequences": b1, "corruptions": b2, "scale_programs": len(scale)}
	r.Sample("T | where f ( a [ = ] )")
	r.Sample("T | summarize a , by a")
}

func c08Replay(w *run.Worker, v *run.Viol) { c08One(w, v.Source) }

// ptok is a token the tree printer expects: a kind, acceptable values, and a tag
// for the permitted-absence rules.
type ptok struct {
	kind parser.TokenKind
	vals []string // nil = value not compared
	tag  string
}

type treePrinter struct {
	out []ptok
	bad string
}

func (p *treePrinter) emit(k parser.TokenKind, tag string, vals ...string) {
	p.out = append(p.out, ptok{kind: k, vals: vals, tag: tag})
}
func (p *treePrinter) kw(words ...string) { p.emit(parser.TokenIdentifier, "", words...) }
func (p *treePrinter) hole(what string) {
	if p.bad == "" {
		p.bad = what
	}
}

func (p *treePrinter) ident(id *parser.Ident, what string) {
	if id == nil {
		p.hole("missing " + what)
		return
	}
	if id.Quoted {
		p.emit(parser.TokenQuotedIdentifier, "", id.Name)
	} else {
		p.emit(parser.TokenIdentifier, "", id.Name)
	}
}

func (p *treePrinter) expr(e parser.Expr, what string) {
	if astx.IsNilNode(e) {
		p.hole("missing " + what)
		return
	}
	switch e := e.(type) {
	case *parser.QualifiedIdent:
		if len(e.Parts) == 0 {
			p.hole("empty qualified identifier")
		}
		for i, part := range e.Parts {
			if i > 0 {
				p.emit(parser.TokenDot, "")
			}
			p.ident(part, "identifier part")
		}
	case *parser.BasicLit:
		p.emit(e.Kind, "", e.Value)
	case *parser.UnaryExpr:
		p.emit(e.Op, "")
		p.expr(e.X, "operand of sign")
	case *parser.BinaryExpr:
		p.expr(e.X, "left operand")
		p.emit(e.Op, "")
		p.expr(e.Y, "right operand")
	case *parser.InExpr:
		p.expr(e.X, "left operand of in")
		p.emit(parser.TokenIn, "")
		p.emit(parser.TokenLParen, "")
		if len(e.Vals) == 0 {
			p.hole("empty in list")
		}
		for i, v := range e.Vals {
			if i > 0 {
				p.emit(parser.TokenComma, "")
			}
			p.expr(v, "in value")
		}
		p.emit(parser.TokenRParen, "")
	case *parser.ParenExpr:
		p.emit(parser.TokenLParen, "")
		p.expr(e.X, "parenthesised expression")
		p.emit(parser.TokenRParen, "")
	case *parser.CallExpr:
		p.ident(e.Func, "function name")
		p.emit(parser.TokenLParen, "")
		for i, a := range e.Args {
			if i > 0 {
				p.emit(parser.TokenComma, "")
			}
			p.expr(a, "call argument")
		}
		p.emit(parser.TokenRParen, "callclose")
	case *parser.IndexExpr:
		p.expr(e.X, "indexed expression")
		p.emit(parser.TokenLBracket, "")
		p.expr(e.Index, "index")
		p.emit(parser.TokenRBracket, "")
	default:
		p.hole(fmt.Sprintf("unknown expression node %T", e))
	}
}

func (p *treePrinter) sortTerm(t *parser.SortTerm) {
	if t == nil {
		p.hole("missing sort term")
		return
	}
	p.expr(t.X, "sort expression")
	if t.AscDescSpan.IsValid() {
		if t.Asc {
			p.kw("asc")
		} else {
			p.kw("desc")
		}
	}
	if t.NullsSpan.IsValid() {
		p.kw("nulls")
		if t.NullsFirst {
			p.kw("first")
		} else {
			p.kw("last")
		}
	}
}

func (p *treePrinter) tabular(t *parser.TabularExpr) {
	if t == nil {
		p.hole("missing tabular expression")
		return
	}
	ref, ok := t.Source.(*parser.TableRef)
	if !ok || ref == nil {
		p.hole("missing table reference")
		return
	}
	p.ident(ref.Table, "table name")
	for _, op := range t.Operators {
		p.emit(parser.TokenPipe, "")
		switch op := op.(type) {
		case *parser.CountOperator:
			p.kw("count")
		case *parser.WhereOperator:
			p.kw("where", "filter")
			p.expr(op.Predicate, "where predicate")
		case *parser.SortOperator:
			p.kw("sort", "order")
			p.emit(parser.TokenBy, "")
			if len(op.Terms) == 0 {
				p.hole("sort without terms")
			}
			for i, t := range op.Terms {
				if i > 0 {
					p.emit(parser.TokenComma, "")
				}
				p.sortTerm(t)
			}
		case *parser.TakeOperator:
			p.kw("take", "limit")
			p.expr(op.RowCount, "row count")
		case *parser.TopOperator:
			p.kw("top")
			p.expr(op.RowCount, "row count")
			p.emit(parser.TokenBy, "")
			p.sortTerm(op.Col)
		case *parser.ProjectOperator:
			p.kw("project")
			if len(op.Cols) == 0 {
				p.hole("project without columns")
			}
			for i, c := range op.Cols {
				if i > 0 {
					p.emit(parser.TokenComma, "")
				}
				if c == nil {
					p.hole("nil project column")
					continue
				}
				p.ident(c.Name, "project column name")
				if !astx.IsNilNode(c.X) {
					p.emit(parser.TokenAssign, "")
					p.expr(c.X, "project expression")
				}
			}
		case *parser.ExtendOperator:
			p.kw("extend")
			if len(op.Cols) == 0 {
				p.hole("extend without columns")
			}
			for i, c := range op.Cols {
				if i > 0 {
					p.emit(parser.TokenComma, "")
				}
				if c == nil {
					p.hole("nil extend column")
					continue
				}
				if c.Name != nil {
					p.ident(c.Name, "extend column name")
					p.emit(parser.TokenAssign, "")
				}
				p.expr(c.X, "extend expression")
			}
		case *parser.SummarizeOperator:
			p.kw("summarize")
			col := func(c *parser.SummarizeColumn) {
				if c == nil {
					p.hole("nil summarize column")
					return
				}
				if c.Name != nil {
					p.ident(c.Name, "summarize column name")
					p.emit(parser.TokenAssign, "")
				}
				p.expr(c.X, "summarize expression")
			}
			for i, c := range op.Cols {
				if i > 0 {
					p.emit(parser.TokenComma, "")
				}
				col(c)
			}
			if op.By.IsValid() || len(op.GroupBy) > 0 {
				p.emit(parser.TokenBy, "summarizeby")
				if len(op.GroupBy) == 0 {
					p.hole("summarize by without keys")
				}
				for i, c := range op.GroupBy {
					if i > 0 {
						p.emit(parser.TokenComma, "")
					}
					col(c)
				}
			} else if len(op.Cols) == 0 {
				p.hole("empty summarize")
			}
		case *parser.JoinOperator:
			p.kw("join")
			if op.Flavor != nil || op.Kind.IsValid() {
				p.kw("kind")
				p.emit(parser.TokenAssign, "")
				p.ident(op.Flavor, "join kind")
			}
			p.emit(parser.TokenLParen, "")
			p.tabular(op.Right)
			p.emit(parser.TokenRParen, "")
			p.kw("on")
			if len(op.Conditions) == 0 {
				p.hole("join without conditions")
			}
			for i, c := range op.Conditions {
				if i > 0 {
					p.emit(parser.TokenComma, "")
				}
				p.expr(c, "join condition")
			}
		case *parser.AsOperator:
			p.kw("as")
			p.ident(op.Name, "as name")
		case *parser.RenderOperator:
			p.kw("render")
			p.ident(op.ChartType, "chart type")
			if op.With.IsValid() || len(op.Props) > 0 {
				p.kw("with")
				p.emit(parser.TokenLParen, "")
				if len(op.Props) == 0 {
					p.hole("render with no properties")
				}
				for i, pr := range op.Props {
					if i > 0 {
						p.emit(parser.TokenComma, "")
					}
					if pr == nil {
						p.hole("nil render property")
						continue
					}
					p.ident(pr.Name, "property name")
					p.emit(parser.TokenAssign, "")
					p.expr(pr.Value, "property value")
				}
				p.emit(parser.TokenRParen, "")
			}
		default:
			p.hole(fmt.Sprintf("unknown operator node %T", op))
		}
	}
}

func (p *treePrinter) stmt(s parser.Statement) {
	switch s := s.(type) {
	case *parser.TabularExpr:
		p.tabular(s)
	case *parser.LetStatement:
		if s == nil {
			p.hole("nil let")
			return
		}
		p.kw("let")
		p.ident(s.Name, "let name")
		p.emit(parser.TokenAssign, "")
		p.expr(s.X, "let value")
	default:
		p.hole(fmt.Sprintf("unknown statement %T", s))
	}
}

func tokText(src string, t parser.Token) string {
	if t.Span.IsValid() && t.Span.End <= len(src) {
		return src[t.Span.Start:t.Span.End]
	}
	return "?"
}

func c08One(w *run.Worker, src string) {
	w.Begin("accepted-implies-reprint", src)
	var stmts []parser.Statement
	var err error
	var toks []parser.Token
	if !w.Try(src, func() { stmts, err = parser.Parse(src) }) {
		return
	}
	if err != nil {
		return
	}
	if !w.Try(src, func() { toks = parser.Scan(src) }) {
		return
	}
	if len(toks) >= 2 {
		w.Nontrivial()
	}
	// an accepted source must consist of well-formed lexemes only (independent tokenizer)
	ref := reftok.Scan(src)
	for i, rt := range ref {
		if rt.Kind == reftok.Error {
			w.Fail("accept:malformed-lexeme", src, fmt.Sprintf("Parse accepted a source whose piece %q at [%d,%d) is not a lexeme of the language", src[rt.Start:rt.End], rt.Start, rt.End), nil)
			return
		}
		if i >= len(toks) || toks[i].Span.Start != rt.Start || toks[i].Span.End != rt.End {
			w.Fail("accept:malformed-lexeme", src, fmt.Sprintf("Parse accepted a source that the reference tokenizer splits differently at offset %d (lexeme %q)", rt.Start, src[rt.Start:rt.End]), nil)
			return
		}
	}
	// group source tokens by statement
	var groups [][]parser.Token
	var cur []parser.Token
	for _, t := range toks {
		if t.Kind == parser.TokenSemi {
			if len(cur) > 0 {
				groups = append(groups, cur)
			}
			cur = nil
			continue
		}
		cur = append(cur, t)
	}
	if len(cur) > 0 {
		groups = append(groups, cur)
	}
	if len(groups) != len(stmts) {
		w.Fail("accept:statement-count", src, fmt.Sprintf("%d non-empty statements in the token stream, Parse returned %d", len(groups), len(stmts)), nil)
		return
	}
	for si, st := range stmts {
		p := &treePrinter{}
		p.stmt(st)
		if p.bad != "" {
			w.Fail("accept:incomplete-tree:"+p.bad, src, fmt.Sprintf("Parse succeeded but statement %d has a hole: %s\ntree %s", si, p.bad, describeLocked(st, false)), nil)
			return
		}
		g := groups[si]
		i, j := 0, 0
		for i < len(g) || j < len(p.out) {
			if i < len(g) && g[i].Kind == parser.TokenComma && i+1 < len(g) && j < len(p.out) {
				// permitted absences
				if g[i+1].Kind == parser.TokenRParen && p.out[j].kind == parser.TokenRParen && p.out[j].tag == "callclose" {
					i++
					continue
				}
				if g[i+1].Kind == parser.TokenBy && p.out[j].kind == parser.TokenBy && p.out[j].tag == "summarizeby" {
					i++
					continue
				}
			}
			if i >= len(g) {
				w.Fail("accept:tree-has-extra", src, fmt.Sprintf("statement %d: tree prints %d tokens, source has %d", si, len(p.out), len(g)), nil)
				return
			}
			if j >= len(p.out) {
				w.Fail("accept:dropped:"+dropSig(g, i), src, fmt.Sprintf("statement %d: source token %d %q (%s) and what follows is not represented in the tree\ntree %s", si, i, tokText(src, g[i]), g[i].Kind, describeLocked(st, false)), nil)
				return
			}
			want := p.out[j]
			ok := g[i].Kind == want.kind
			if ok && want.vals != nil {
				ok = false
				for _, v := range want.vals {
					if g[i].Value == v {
						ok = true
					}
				}
			}
			if !ok {
				w.Fail("accept:dropped:"+dropSig(g, i), src, fmt.Sprintf("statement %d: source token %d is %q (%s) but the tree continues with %s %q\ntree %s", si, i, tokText(src, g[i]), g[i].Kind, want.kind, want.vals, describeLocked(st, false)), nil)
				return
			}
			i++
			j++
		}
	}
}

// dropSig names the first unrepresented token and its neighbourhood.
func dropSig(g []parser.Token, i int) string {
	s := g[i].Kind.String()
	if i > 0 {
		s = "after-" + g[i-1].Kind.String() + ":" + s
	}
	return s
}
