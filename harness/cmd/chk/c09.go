package main

import (
	"fmt"
	"math"
	"math/big"
	"regexp"
	"strings"

	"github.com/runreveal/pql/parser"
	"verif/harness/enum"
	"verif/harness/reftok"
	"verif/harness/run"
)

func init() { register("C09", "exploration", c09Main, c09Replay) }

var kindMap = map[reftok.Kind]parser.TokenKind{
	reftok.Error: parser.TokenError, reftok.Ident: parser.TokenIdentifier, reftok.QuotedIdent: parser.TokenQuotedIdentifier,
	reftok.Number: parser.TokenNumber, reftok.String: parser.TokenString, reftok.And: parser.TokenAnd, reftok.Or: parser.TokenOr,
	reftok.In: parser.TokenIn, reftok.By: parser.TokenBy, reftok.Pipe: parser.TokenPipe, reftok.Dot: parser.TokenDot,
	reftok.Comma: parser.TokenComma, reftok.Plus: parser.TokenPlus, reftok.Minus: parser.TokenMinus, reftok.Star: parser.TokenStar,
	reftok.Slash: parser.TokenSlash, reftok.Mod: parser.TokenMod, reftok.Assign: parser.TokenAssign, reftok.Eq: parser.TokenEq,
	reftok.NE: parser.TokenNE, reftok.LT: parser.TokenLT, reftok.LE: parser.TokenLE, reftok.GT: parser.TokenGT, reftok.GE: parser.TokenGE,
	reftok.CIEq: parser.TokenCaseInsensitiveEq, reftok.CINE: parser.TokenCaseInsensitiveNE, reftok.LParen: parser.TokenLParen,
	reftok.RParen: parser.TokenRParen, reftok.LBracket: parser.TokenLBracket, reftok.RBracket: parser.TokenRBracket, reftok.Semi: parser.TokenSemi,
}

var c09Alpha = []string{"a", "e", "x", "0", "1", ".", "+", "-", "'", "\"", "`", "\\", "n", "/", "\n", " ", "=", "!", "~", "<", ">",
	"|", ";", "(", "[", ",", "_", "$", "%", "*", "é", " ", "\xff", "\x00", "\t", "\r", "\xa0", "\x85", "\ufeff"}
var c09NumAlpha = []string{"0", "1", "9", ".", "e", "E", "x", "X", "a", "f", "+", "-", ";"}
var c09StrAlpha = []string{"'", "\"", "\\", "n", "a", "\n", "é", "\xff"}
var c09IdAlpha = []string{"a", "i", "n", "b", "y", "o", "r", "d", "A", "_", "$", "0", "`", " ", "."}

var canonNumber = regexp.MustCompile(`^(0|[1-9][0-9]*)(\.[0-9]*)?([eE][+-]?[0-9]+)?$`)

func c09Main(r *run.Runner) {
	r.Rule = "every byte string over the stated alphabets up to the stated length (plus boundary literals, unusual runes in 20 lexical contexts, sequences of tricky lexemes and the wide families as sources) is scanned by parser.Scan and by the reference tokenizer; " +
		"a case is non-trivial when it yields at least one token; cases are distinct by construction (each string is enumerated once)"
	r.Assume = []string{"reference tokenizer reftok encodes the token definitions of the property statement",
		"numeric accessors are only compared where the value is representable (uint64 range / finite normal float64)"}
	type sweep struct {
		name  string
		alpha []string
		n     int
	}
	sweeps := []sweep{{"general36", c09Alpha, 4}, {"number13", c09NumAlpha, 5}, {"string8", c09StrAlpha, 6}, {"ident15", c09IdAlpha, 4}}
	if r.Thorough() {
		sweeps = []sweep{{"general36", c09Alpha, 5}, {"number13", c09NumAlpha, 7}, {"string8", c09StrAlpha, 8}, {"ident15", c09IdAlpha, 6}}
	}
	bounds := map[string]any{}
	for _, sw := range sweeps {
		e := enum.Strings{Alpha: sw.alpha, MaxLen: sw.n, Split: 2}
		bounds[sw.name] = map[string]any{"alphabet_size": len(sw.alpha), "max_len": sw.n, "strings": e.Total()}
		r.Sweep(sw.name, e.Items(), func(w *run.Worker, item int64) {
			e.Do(item, func(buf []byte, _ []int) bool {
				c09One(w, string(buf))
				return !w.Stopped()
			})
		})
	}
	// boundary literals: values around 2^63 and 2^64 in hexadecimal and decimal, long digit runs
	var lits []string
	for n := 1; n <= 18; n++ {
		for _, first := range []string{"1", "7", "8", "f", "F"} {
			for _, rest := range []string{"0", "f", "F", "9"} {
				for _, px := range []string{"0x", "0X"} {
					lits = append(lits, px+first+strings.Repeat(rest, n-1))
				}
			}
		}
		for _, first := range []string{"1", "9"} {
			for _, rest := range []string{"0", "9"} {
				d := first + strings.Repeat(rest, n+2)
				lits = append(lits, d, d+".5", "0."+d, d+"e1", "1e"+d[:1+n/6])
			}
		}
	}
	for _, big := range []string{"18446744073709551615", "18446744073709551616", "99999999999999999999999", "9223372036854775808", "340282366920938463463374607431768211456"} {
		for _, z := range []string{"0", "000", "00000000000000000000"} {
			lits = append(lits, z+big, z+big+".0", z+big+"e0", "0x"+z+"ffffffffffffffff")
		}
	}
	lits = append(lits, "9223372036854775807", "9223372036854775808", "18446744073709551615", "18446744073709551616", "0x7fffffffffffffff", "0x8000000000000000", "0xffffffffffffffff", "0x10000000000000000", "0x00000000000000000001")
	bounds["boundary_literals"] = len(lits)
	wides := wideTexts(r.Thorough())
	r.Sweep("wide-sources", int64(len(wides)), func(w *run.Worker, item int64) {
		c09One(w, wides[item])
		c09One(w, strings.ReplaceAll(wides[item], " ", "\t"))
	})
	r.Sweep("boundary-literals", int64(len(lits)), func(w *run.Worker, item int64) {
		c09One(w, lits[item])
		c09One(w, "a=="+lits[item]+";")
	})
	// interesting runes in every lexical context
	runes := []string{"\u0085", "\u00a0", "\u1680", "\u2000", "\u2028", "\u2029", "\u202f", "\u205f", "\u3000", "\ufeff", "\u200b", "\u00e9", "\u0131", "\u212a", "\U0001F600", "\u0300",
		"\x80", "\xc2", "\xe2\x80", "\xed\xa0\x80", "\xf4\x90\x80\x80", "\x0b", "\x0c", "\x1f", "\x7f",
		"\ufffd", "\ufffe", "\uffff", "\U0010ffff", "\u0000", "\u007f\u0080", "\u07ff\u0800", "\xef\xbf", "\xf0\x9f\x98"}
	contexts := []string{"%s", "a%sb", "a %s b", "1%s2", "'%s'", "'\\%s'", "\"p%sq\"", "`%s`", "a //%sb\nc", "//%s", "a //x%s", "a%s;b", "!%s", "0x%s1", "1e%s5", "a.%sb", "a/%s/b", "<%s=", "'unterminated%s", "`q%s\nr",
		"'x\\ty%sz'", "\"%s\\n%s\"", "'\\\\%s\\''", "`a``%sb`", "'p%s' 'q\\t%s'", "\"\\q%s\""}
	bounds["unicode_contexts"] = len(runes) * len(contexts)
	r.Sweep("unicode-contexts", int64(len(runes)), func(w *run.Worker, item int64) {
		for _, c := range contexts {
			c09One(w, strings.Replace(c, "%s", runes[item], 1))
			c09One(w, strings.Replace(c, "%s", runes[item]+runes[(item+1)%int64(len(runes))], 1))
		}
	})
	// every byte after a backslash inside a string, followed by text that some other language would read as part of the escape
	conts := []string{"", "0", "00", "41", "0041", "00000041", "{41}", "{0041}", "101", "x41", "u0041", "N{DASH}", "\n", "'", "\\", "é"}
	bounds["escapes"] = 256 * len(conts) * 3
	r.Sweep("escapes", 256, func(w *run.Worker, item int64) {
		c := string([]byte{byte(item)})
		for _, ct := range conts {
			c09One(w, "'\\"+c+ct+"'")
			c09One(w, "\"a\\"+c+ct+"b\" x")
			c09One(w, "'\\"+c+ct)
		}
	})
	// every rune after a backslash inside a string (escape tables indexed by something narrower than a rune)
	bounds["rune_escapes"] = 0x110000 - 0x80
	r.Sweep("rune-escapes", (0x110000-0x80+4095)/4096, func(w *run.Worker, item int64) {
		for cp := 0x80 + int(item)*4096; cp < 0x80+int(item+1)*4096 && cp < 0x110000; cp++ {
			if cp >= 0xD800 && cp < 0xE000 {
				continue
			}
			c09One(w, "'J \\"+string(rune(cp))+"l'")
			if cp%64 == 0 {
				c09One(w, "\"C:\\"+string(rune(cp))+"\\"+string(rune(cp+1))+"\" x")
			}
		}
	})
	// every rune directly after hex digits, decimal digits, an identifier, and after a blank between two tokens
	// (character classes taken from a Unicode table that is wider than the token definitions)
	r.Sweep("rune-contexts", (0x110000-0x80+4095)/4096, func(w *run.Worker, item int64) {
		for cp := 0x80 + int(item)*4096; cp < 0x80+int(item+1)*4096 && cp < 0x110000; cp++ {
			if cp >= 0xD800 && cp < 0xE000 {
				continue
			}
			s := string(rune(cp))
			c09One(w, "0x1"+s+"f")
			c09One(w, "1"+s+"2e"+s+"3")
			c09One(w, "a"+s+"b "+s+"c")
			c09One(w, "a "+s+"b ."+s)
		}
	})
	// decimal literals with 1-3 mantissa digits, with and without fraction, with every exponent of ordinary magnitude
	// (numeric accessors agree with the spelling)
	r.Sweep("float-literals", 999, func(w *run.Worker, item int64) {
		m := int(item) + 1
		ms := fmt.Sprint(m)
		forms := []string{ms, ms + ".0", "0." + ms, ms[:1] + "." + ms[1:] + "5"}
		if len(ms) > 1 {
			forms = append(forms, ms[:1]+"."+ms[1:], ms[:len(ms)-1]+"."+ms[len(ms)-1:])
		}
		for _, f := range forms {
			for e := -45; e <= 45; e++ {
				for _, ef := range []string{"e%d", "E%+d"} {
					c09One(w, f+fmt.Sprintf(ef, e))
				}
			}
			for _, e := range []int{-330, -324, -323, -308, -307, 300, 307, 308, 309} {
				c09One(w, fmt.Sprintf("%se%d", f, e))
			}
		}
	})
	// long string and name bodies with one special byte at the start, in the middle or at the end (fast paths keyed on length)
	var lens []int
	for n := 0; n <= 70; n++ {
		lens = append(lens, n)
	}
	lens = append(lens, 127, 128, 129, 255, 256, 257, 1000, 4096)
	r.Sweep("long-strings", int64(len(lens)), func(w *run.Worker, item int64) {
		n := lens[item]
		for _, fill := range []string{"A", " ", "-", "x", "n"} {
			for _, special := range []string{"\n", "\r", "\r\n", "\\", "'", "\"", "`", "\\n", "\\'", "\x00", "é", "``", "''", "\"\"", "``\n", "``x\n`"} {
				for _, pos := range []int{0, n / 2, n} {
					body := strings.Repeat(fill, pos) + special + strings.Repeat(fill, n-pos)
					for _, q := range []string{"'", "\"", "`"} {
						c09One(w, "let b = "+q+body+q+";\nT | where m == b")
						c09One(w, q+body)
						c09One(w, "T | where "+q+body+"\n| take `n`; U | where x == 'y' // `\n; V")
					}
				}
			}
		}
	})
	// long runs of bytes that each give an error token (limits on the number of diagnostics), alone and spread over statements
	junkSizes := []int{9, 10, 11, 99, 100, 101, 255, 256, 257, 999, 1000, 1001, 1023, 1024, 1025, 4095, 4096, 4097, 10000}
	if r.Thorough() {
		junkSizes = append(junkSizes, 65535, 65536, 65537, 100000)
	}
	r.Sweep("error-runs", int64(len(junkSizes)), func(w *run.Worker, item int64) {
		n := junkSizes[item]
		for _, j := range []string{"#", "\x00", "! ", "\xff", "'\n", "0x "} {
			c09One(w, strings.Repeat(j, n))
			c09One(w, strings.Repeat(j, n/2)+";"+strings.Repeat(j, n-n/2)+"; T | count")
			c09One(w, "T | where a"+strings.Repeat(j, n)+" | count")
		}
	})
	// sequences of tricky lexemes: state carried from one token to the next (buffers, look-ahead)
	pool := []string{"a", "by", "1", "0x1f", ".5e1", "1e", "0x", "'p\\tq'", "\"r\\ns\"", "'u\\", "\"v\\tw", "'x", "`i`", "`j``k`", "`l", "// c", "//", "/", "!", "!=", "=~", "<=", "é", "\xff", "\xa0", "$x", ".", ";", "(", "'\\''", "\"\\\\\""}
	seps := []string{"", " ", "\n", "\r\n", " \xa0", "\t\x85"}
	k := 3
	if r.Thorough() {
		k = 4
	}
	pe := enum.Strings{Alpha: make([]string, len(pool)*len(seps)), MaxLen: k, Split: 1}
	for i, l := range pool {
		for j, sp := range seps {
			pe.Alpha[i*len(seps)+j] = l + sp
		}
	}
	bounds["lexeme_sequences"] = map[string]any{"pool": len(pool), "separators": len(seps), "max_lexemes": k, "strings": pe.Total()}
	r.Sweep("lexeme-sequences", pe.Items(), func(w *run.Worker, item int64) {
		pe.Do(item, func(buf []byte, _ []int) bool {
			c09One(w, string(buf))
			return !w.Stopped()
		})
	})
	r.Extra["bounds"] = bounds
	r.Sample("a=~'x\\n' // c")
	r.Sample("0x1f+.5e-1")
	r.Sample("`a``b`!~\xff")
}

func c09Replay(w *run.Worker, v *run.Viol) { c09One(w, v.Source) }

func c09One(w *run.Worker, s string) {
	w.Begin("scan-vs-reference", s)
	var toks []parser.Token
	if !w.Try(s, func() { toks = parser.Scan(s) }) {
		return
	}
	ref := reftok.Scan(s)
	if len(ref) > 0 {
		w.Nontrivial()
	}
	// (ii) partition law, from spans alone
	prev := 0
	for i, t := range toks {
		if t.Span.Start < prev || t.Span.End <= t.Span.Start || t.Span.End > len(s) {
			w.Fail("partition:bad-span", s, fmt.Sprintf("token %d has span %v (previous end %d, source length %d)", i, t.Span, prev, len(s)), nil)
			return
		}
		if reftok.SkipBlank(s[prev:t.Span.Start], 0) != t.Span.Start-prev {
			w.Fail("partition:gap-not-blank", s, fmt.Sprintf("gap %q before token %d is not white space/comment", s[prev:t.Span.Start], i), nil)
			return
		}
		prev = t.Span.End
	}
	if reftok.SkipBlank(s[prev:], 0) != len(s)-prev {
		w.Fail("partition:tail-not-blank", s, fmt.Sprintf("tail %q after last token is not white space/comment", s[prev:]), nil)
		return
	}
	// (i) agreement with the reference
	for i := 0; i < len(ref) || i < len(toks); i++ {
		if i >= len(ref) {
			w.Fail("tokens:extra", s, fmt.Sprintf("token %d %v not in reference (reference has %d tokens)", i, toks[i], len(ref)), nil)
			return
		}
		rt := ref[i]
		if i >= len(toks) {
			w.Fail("tokens:missing:"+rt.Kind.String(), s, fmt.Sprintf("reference token %d %v missing (Scan returned %d tokens)", i, rt, len(toks)), nil)
			return
		}
		t := toks[i]
		if t.Kind != kindMap[rt.Kind] {
			w.Fail(fmt.Sprintf("tokens:kind:want=%s,got=%s", rt.Kind, t.Kind), s,
				fmt.Sprintf("token %d: want %s [%d,%d), got %s %v", i, rt.Kind, rt.Start, rt.End, t.Kind, t.Span), nil)
			return
		}
		if t.Span.Start != rt.Start || t.Span.End != rt.End {
			w.Fail("tokens:span:"+rt.Kind.String(), s,
				fmt.Sprintf("token %d (%s): want span [%d,%d), got %v", i, rt.Kind, rt.Start, rt.End, t.Span), nil)
			return
		}
		switch rt.Kind {
		case reftok.Ident, reftok.QuotedIdent, reftok.String:
			if t.Value != rt.Value {
				w.Fail("tokens:value:"+rt.Kind.String(), s, fmt.Sprintf("token %d (%s): want value %q, got %q", i, rt.Kind, rt.Value, t.Value), nil)
				return
			}
		case reftok.Number:
			if msg := checkNumberValue(rt.Value, t.Value); msg != "" {
				w.Fail("tokens:value:Number", s, fmt.Sprintf("token %d: %s", i, msg), nil)
				return
			}
			if msg := checkAccessors(rt.Value, t); msg != "" {
				w.Fail("accessors", s, fmt.Sprintf("token %d: %s", i, msg), nil)
				return
			}
		case reftok.Error:
		default:
			if t.Value != "" {
				w.Fail("tokens:value:operator", s, fmt.Sprintf("token %d (%s): want empty value, got %q", i, rt.Kind, t.Value), nil)
				return
			}
		}
	}
	// (iii) a token's own text scans to the same token
	if len(toks) > 1 || (len(toks) == 1 && toks[0].Span.Len() != len(s)) {
		for i, t := range toks {
			text := s[t.Span.Start:t.Span.End]
			var again []parser.Token
			if !w.Try(text, func() { again = parser.Scan(text) }) {
				return
			}
			if len(again) != 1 || again[0].Kind != t.Kind || again[0].Span.Start != 0 || again[0].Span.End != len(text) ||
				(t.Kind != parser.TokenError && again[0].Value != t.Value) {
				w.Fail("rescan:"+t.Kind.String(), s, fmt.Sprintf("token %d %v text %q scanned alone gives %v", i, t, text, again), nil)
				return
			}
		}
	}
}

// checkNumberValue: the token value must be a canonical decimal spelling of the
// same value as the source lexeme.
func checkNumberValue(lexeme, value string) string {
	if !canonNumber.MatchString(value) {
		return fmt.Sprintf("value %q of literal %q is not a normalised decimal spelling", value, lexeme)
	}
	want := reftok.NumValue(lexeme)
	got := reftok.DecValue(value)
	if want == nil || got == nil {
		return fmt.Sprintf("cannot evaluate literal %q / value %q", lexeme, value)
	}
	if want.Cmp(got) != 0 {
		return fmt.Sprintf("value %q (=%s) differs from literal %q (=%s)", value, got.RatString(), lexeme, want.RatString())
	}
	if reftok.IsIntegerSpelling(lexeme) != !containsAny(value, ".eE") {
		return fmt.Sprintf("value %q changes integer/float spelling of literal %q", value, lexeme)
	}
	return ""
}

func containsAny(s, chars string) bool {
	for i := 0; i < len(s); i++ {
		for j := 0; j < len(chars); j++ {
			if s[i] == chars[j] {
				return true
			}
		}
	}
	return false
}

var maxU64 = new(big.Rat).SetInt(new(big.Int).SetUint64(math.MaxUint64))

func checkAccessors(lexeme string, t parser.Token) string {
	lit := &parser.BasicLit{Kind: t.Kind, Value: t.Value, ValueSpan: t.Span}
	isInt := reftok.IsIntegerSpelling(lexeme)
	if lit.IsInteger() != isInt || lit.IsFloat() == isInt {
		return fmt.Sprintf("literal %q: IsInteger=%v IsFloat=%v, spelling is integer=%v", lexeme, lit.IsInteger(), lit.IsFloat(), isInt)
	}
	v := reftok.NumValue(lexeme)
	if v == nil {
		return ""
	}
	if isInt && v.Cmp(maxU64) <= 0 {
		want := new(big.Int).Set(v.Num()).Uint64()
		if got := lit.Uint64(); got != want {
			return fmt.Sprintf("literal %q: Uint64()=%d, want %d", lexeme, got, want)
		}
	}
	// Float64 where the value is zero or of ordinary magnitude
	f, _ := v.Float64() // the float64 nearest to the exact rational value of the spelling
	if v.Sign() == 0 || (math.Abs(f) > 1e-300 && math.Abs(f) < 1e300) {
		got := lit.Float64()
		if got != f {
			return fmt.Sprintf("literal %q: Float64()=%v, want %v", lexeme, got, f)
		}
		if !isInt && v.IsInt() && v.Cmp(big.NewRat(1<<53, 1)) < 0 {
			want := v.Num().Uint64()
			if got := lit.Uint64(); got != want {
				return fmt.Sprintf("literal %q: Uint64()=%d, want %d", lexeme, got, want)
			}
		}
	}
	return ""
}
