package main

import (
	"verif/harness/run"
)

func init() {
	register("C10", "exploration", func(r *run.Runner) {
		grammarMain(r, true)
		if c10Failures != nil {
			c10Failures(r)
		}
	}, func(w *run.Worker, v *run.Viol) {
		if c10FailReplay != nil && (len(v.Check) >= 5 && v.Check[:5] == "error" || v.Check == "implicit-column-name") {
			c10FailReplay(w, v)
			return
		}
		grammarReplay(w, v, true)
	})
}

var c10Failures func(r *run.Runner)
var c10FailReplay func(w *run.Worker, v *run.Viol)
