package main

import (
	"fmt"
	"regexp"
	"strconv"
	"strings"
	"unicode/utf8"

	"github.com/runreveal/pql"
	"github.com/runreveal/pql/parser"
	"verif/harness/astx"
	"verif/harness/gen"
	"verif/harness/run"
)

func init() {
	c10Failures = func(r *run.Runner) {
		corruptionSeps = []string{" ", "\n", "\t", " é\t\n"}
		defer func() { corruptionSeps = []string{" "} }()
		// string lexemes containing spaces would be changed by the separator replacement; the corpus has none with spaces inside quotes except names, which is fine for a failure sweep
		implicitNames(r)
		// text that a front end may strip or skip before the first token (byte order mark, no-break and other non-ASCII
		// blanks, control characters, ordinary white space): when the padded source parses, every span is the span of the
		// unpadded parse moved by the length of the padding; when it does not, the error positions are checked as usual
		corpus := gen.Programs()
		r.Sweep("leading-text-moves-spans", int64(len(corpus)), func(w *run.Worker, item int64) {
			pr := gen.Print(corpus[item])
			for _, sep := range []string{" ", ""} {
				base := pr.Layout(pr.Uniform(sep)).Source
				for _, pad := range []string{"\ufeff", "\ufeff\n", "\u00a0", "\u2028", "\u200b", "\u3000", "\x0c", "\x0b", "\x00", "\x1a", "\xff\xfe", " ", "\n", "\t\r\n"} {
					c10Shift(w, base, pad)
					c10FailOne(w, pad+base)
					c10FailOne(w, base+pad+"|")
				}
			}
		})
		// many diagnostics in one multi-line source, each at the first column of its line or after tabs / multi-byte text
		var ks []int
		for k := 1; k <= 14; k++ {
			ks = append(ks, k)
		}
		ks = append(ks, 16, 17, 33, 100)
		r.Sweep("many-errors-multiline", int64(len(ks)), func(w *run.Worker, item int64) {
			k := ks[item]
			bad := []string{"|", "| where", "| bogus x", ")", "| take 'x'", "| join kind=zz (R) on", "\t| é ü", "| project é = ", "|| count"}
			for _, nl := range []string{"\n", "\r\n", "\n\n"} {
				for _, first := range []string{"T", "let é = 'ü';\tT | where s == \"日本\"", "T | where a ==", ""} {
					for rot := 0; rot < len(bad); rot++ {
						var sb strings.Builder
						sb.WriteString(first)
						for i := 0; i < k; i++ {
							sb.WriteString(nl)
							sb.WriteString(bad[(i+rot)%len(bad)])
						}
						c10FailOne(w, sb.String())
						c10FailOne(w, sb.String()+nl+"; U | where"+nl+"| sort by")
						if rot < 4 {
							// the source ends inside a multi-byte sequence: positions still lie inside the source
							for _, cut := range []string{"\xe2\x80", "\xc3", "\xf0\x9f\x98", " x == 'é' \xe2\x80", "\xff"} {
								c10FailOne(w, sb.String()+cut)
							}
						}
					}
				}
			}
		})
		b1 := tokenSweeps(r, 3, 4, c10FailOne)
		b2 := corruptionSweep(r, c10FailOne)
		bounds, _ := r.Extra["bounds"].(map[string]any)
		if bounds == nil {
			bounds = map[string]any{}
		}
		bounds["failure_token_sequences"] = b1
		bounds["failure_corruptions"] = b2
		r.Extra["bounds"] = bounds
		r.Rule += "; failure part: every lexeme sequence of the token sweeps and every corruption of the corpus (joined with blanks, newlines, tabs and non-ASCII text) that fails to parse or compile: every span reachable in the partial tree is invalid or inside the source, every line:column prefix of the error message designates a position of the source under an independent line/column function; implicit column names equal the source text of their expression"
	}
	c10FailReplay = func(w *run.Worker, v *run.Viol) {
		if v.Check == "implicit-column-name" {
			want, _ := v.Extra["want"].(string)
			sql, err := pql.Compile(v.Source)
			if err == nil && !strings.Contains(sql, want) {
				w.Fail(v.Sig, v.Source, sql, nil)
			}
			return
		}
		if v.Check == "error-positions:leading-text" {
			pad, _ := v.Extra["pad"].(string)
			c10Shift(w, strings.TrimPrefix(v.Source, pad), pad)
			return
		}
		c10FailOne(w, v.Source)
	}
}

// c10Shift: if pad+base parses, its spans are those of base moved by len(pad).
func c10Shift(w *run.Worker, base, pad string) {
	src := pad + base
	w.Begin("error-positions:leading-text", src)
	var a, b []parser.Statement
	var ea, eb error
	if !w.Try(src, func() { a, ea = parser.Parse(base); b, eb = parser.Parse(src) }) {
		return
	}
	if ea != nil || eb != nil {
		return
	}
	w.Nontrivial()
	type ps struct {
		path string
		s    parser.Span
	}
	var sa, sb []ps
	astx.Spans(a, func(path string, s parser.Span) { sa = append(sa, ps{path, s}) })
	astx.Spans(b, func(path string, s parser.Span) { sb = append(sb, ps{path, s}) })
	if len(sa) != len(sb) {
		w.Fail("span:leading-text:tree-differs", src, fmt.Sprintf("%d recorded spans without the leading %q, %d with it", len(sa), pad, len(sb)), map[string]any{"pad": pad})
		return
	}
	for i := range sa {
		x, y := sa[i].s, sb[i].s
		if !x.IsValid() && !y.IsValid() {
			continue
		}
		if sa[i].path != sb[i].path || y.Start != x.Start+len(pad) || y.End != x.End+len(pad) {
			w.Fail("span:leading-text:not-moved", src, fmt.Sprintf("span %s is %v without the leading %q and %v with it (want it moved by %d)", sa[i].path, x, pad, y, len(pad)), map[string]any{"pad": pad})
			return
		}
	}
}

var lineColRe = regexp.MustCompile(`^(?:parse pipeline query language: )?(\d+):(\d+): `)

// refLineCol is an independent line/column function: lines and columns start at 1,
// a tab advances to the next multiple of 8 (+1), every other rune (or stray byte) counts one.
func refLineCol(src string, pos int) (int, int) {
	line, col := 1, 1
	i := 0
	for i < pos {
		r, n := utf8.DecodeRuneInString(src[i:pos])
		switch r {
		case '\n':
			line++
			col = 1
		case '\t':
			col = ((col-1)/8+1)*8 + 1
		default:
			col++
		}
		i += n
	}
	return line, col
}

func c10FailOne(w *run.Worker, src string) {
	w.Begin("error-positions", src)
	var stmts []parser.Statement
	var err error
	if !w.Try(src, func() { stmts, err = parser.Parse(src) }) {
		return
	}
	if err == nil {
		// compile errors carry positions too
		var cerr error
		if !w.Try(src, func() { _, cerr = pql.Compile(src) }) {
			return
		}
		if cerr == nil {
			return
		}
		err = cerr
	} else {
		// (a) spans of the partial tree
		bad := ""
		astx.Spans(stmts, func(path string, s parser.Span) {
			if bad != "" || !s.IsValid() && s.Start == -1 && s.End == -1 {
				return
			}
			if !s.IsValid() {
				return // marked invalid some other way
			}
			if s.Start < 0 || s.Start > s.End || s.End > len(src) {
				bad = fmt.Sprintf("span %s = %v lies outside the source of length %d", path, s, len(src))
			}
		})
		if bad != "" {
			w.Fail("error:span-outside-source", src, bad+"\ntree "+describeLocked(stmts, true), nil)
			return
		}
		// node spans must not panic and must lie inside the source
		for _, st := range stmts {
			ok := true
			astx.Pairs(st, st, func(n, _ parser.Node) {
				if !ok {
					return
				}
				var sp parser.Span
				if !w.Try(src, func() { sp = n.Span() }) {
					ok = false
					return
				}
				if sp.IsValid() && sp.End > len(src) {
					ok = false
					w.Fail("error:node-span-outside-source", src, fmt.Sprintf("%s.Span() = %v outside the source of length %d", astx.TypeName(n), sp, len(src)), nil)
				}
			})
			if !ok {
				return
			}
		}
	}
	w.Nontrivial()
	// (b) line:column prefixes
	var allowed map[[2]int]bool
	for _, line := range strings.Split(err.Error(), "\n") {
		m := lineColRe.FindStringSubmatch(line)
		if m == nil {
			continue
		}
		l, _ := strconv.Atoi(m[1])
		c, _ := strconv.Atoi(m[2])
		if allowed == nil {
			allowed = map[[2]int]bool{}
			for i := 0; i <= len(src); i++ {
				a, b := refLineCol(src, i)
				allowed[[2]int{a, b}] = true
			}
		}
		if !allowed[[2]int{l, c}] {
			w.Fail("error:line-column-outside-source", src, fmt.Sprintf("diagnostic %q: %d:%d is not the position of any offset of the source", line, l, c), nil)
			return
		}
	}
}

// implicitNames: the implicit column name of an unnamed extend / summarize column
// is the source text of its expression, whatever the layout.
func implicitNames(r *run.Runner) {
	exprs := []gen.Expr{
		&gen.Binary{Op: "+", X: gen.Col("a"), Y: gen.Col("b")},
		&gen.Call{Func: "min", Args: []gen.Expr{gen.Col("x")}},
		&gen.Paren{X: &gen.Binary{Op: "*", X: gen.Col("a"), Y: gen.NumLit("2", "2")}},
		&gen.Index{X: gen.Col("m"), I: gen.StrLit("é")},
		&gen.Unary{Op: "-", X: gen.Col("a")},
		&gen.In{X: gen.Col("a"), Vals: []gen.Expr{gen.NumLit("1", "1"), gen.NumLit("2", "2")}},
	}
	type tc struct {
		prog *gen.Program
		x    gen.Expr
	}
	var cases []tc
	for _, x := range exprs {
		for _, y := range exprs {
			cases = append(cases,
				tc{gen.Single(&gen.Pipeline{Source: gen.Ident{Name: "T"}, Ops: []gen.Op{&gen.Extend{Cols: []gen.Column{{X: y}, {X: x}}}}}), x},
				tc{gen.Single(&gen.Pipeline{Source: gen.Ident{Name: "T"}, Ops: []gen.Op{&gen.Summarize{Cols: []gen.Column{{X: &gen.Call{Func: "max", Args: []gen.Expr{y}}}}, By: []gen.Column{{X: x}}, HasBy: true}}}), x},
			)
		}
	}
	r.Sweep("implicit-names", int64(len(cases)), func(w *run.Worker, item int64) {
		c := cases[item]
		pr := gen.Print(c.prog)
		for _, sep := range layoutSeps {
			l := pr.Layout(pr.Uniform(sep))
			w.Begin("implicit-column-name", l.Source)
			w.Nontrivial()
			sql, err := pql.Compile(l.Source)
			if err != nil {
				continue
			}
			// find the source text of expression x: the lexeme run printed for it
			xl := gen.ExprLexemes(c.x)
			text := findRun(l, xl)
			if text == "" {
				continue
			}
			want := ` AS "` + strings.ReplaceAll(strings.ReplaceAll(text, `\`, `\\`), `"`, `""`) + `"`
			if !strings.Contains(sql, want) {
				w.Fail("implicit-name", l.Source, fmt.Sprintf("implicit column name is not the source text %q of the expression\nsql: %s", text, sql), map[string]any{"want": want})
			}
		}
	})
}

// findRun returns the source text covering the last occurrence of the lexeme run xl.
func findRun(l *gen.Laid, xl []string) string {
	for i := len(l.Lexemes) - len(xl); i >= 0; i-- {
		ok := true
		for j := range xl {
			if l.Lexemes[i+j].Text != xl[j] {
				ok = false
				break
			}
		}
		if ok {
			return l.Source[l.Lexemes[i].Start:l.Lexemes[i+len(xl)-1].End]
		}
	}
	return ""
}
