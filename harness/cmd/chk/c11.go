package main

import (
	"fmt"
	"strings"

	"github.com/runreveal/pql/parser"
	"verif/harness/astx"
	"verif/harness/gen"
	"verif/harness/run"
)

func init() { register("C11", "exploration", c11Main, c11Replay) }

// walkSkip names the two documented exceptions of Walk.
func walkSkip(typ, field string) bool {
	return (typ == "CallExpr" && field == "Func") || (typ == "JoinOperator" && field == "Flavor")
}

type refNode struct {
	n      parser.Node
	parent int // index in the reference list, -1 for the root
}

// refTraversal lists every node reachable from root through exported fields, in pre-order.
func refTraversal(root parser.Node) []refNode {
	var out []refNode
	var rec func(n parser.Node, parent int)
	rec = func(n parser.Node, parent int) {
		me := len(out)
		out = append(out, refNode{n, parent})
		for _, c := range astx.Children(n, walkSkip) {
			rec(c, me)
		}
	}
	rec(root, -1)
	return out
}

func isIdentOrExpr(n parser.Node) bool {
	if _, ok := n.(*parser.Ident); ok {
		return true
	}
	_, ok := n.(parser.Expr)
	return ok
}

func c11Main(r *run.Runner) {
	r.Rule = "every statement of the grammar corpus and every expression tree up to N internal nodes (in `T | where E`, all three parenthesisation modes) is parsed and walked with parser.Walk: once without pruning and once per visited node (thorough: per ordered pair of nodes on small trees) as prune point; " +
		"the visit sequence is compared with a reflection-based reference traversal over exported fields; non-trivial = the statement has at least 3 nodes; distinct by construction (statement x prune set)"
	r.Assume = []string{"reference traversal: every exported field / slice element implementing parser.Node, except CallExpr.Func and JoinOperator.Flavor (the documented exceptions)"}
	N := 2
	if r.Thorough() {
		N = 3
	}
	corpus := gen.Programs()
	// one worker: the traversal laws are sequential laws; whether concurrent walks disturb each other is C14's question,
	// and a tree that fails it must not crash this check from the outside
	r.MaxWorkers = 1
	r.Sweep("corpus", int64(len(corpus)), func(w *run.Worker, item int64) {
		pr := gen.Print(corpus[item])
		c11Source(w, pr.Layout(pr.Uniform(" ")).Source, r.Thorough())
	})
	// large programs (walk order with deep stacks) in blank-separated and blank-free layout
	scaleThorough = r.Thorough()
	scale := scalePrograms()
	r.Sweep("scale", int64(len(scale)), func(w *run.Worker, item int64) {
		pr := gen.Print(scale[item])
		small := len(pr.Lexemes) <= 120
		for _, sep := range []string{" ", ""} {
			src := pr.Layout(pr.Uniform(sep)).Source
			if small {
				c11Source(w, src, false)
			} else {
				c11Unpruned(w, src)
			}
		}
	})
	r.Sweep("corpus-tight", int64(len(corpus)), func(w *run.Worker, item int64) {
		pr := gen.Print(corpus[item])
		c11Source(w, pr.Layout(pr.Uniform("")).Source, false)
	})
	shapes := gen.NewShapes(exprKinds(), N-1)
	for n := 0; n <= N; n++ {
		items := shapes.Items(n)
		if n == 0 {
			continue
		}
		r.Sweep(fmt.Sprintf("expr-trees-%d", n), int64(len(items)), func(w *run.Worker, item int64) {
			shapes.Do(items[item], func(sh gen.Expr) bool {
				e := gen.Instantiate(sh, gen.FreshCols())
				for _, m := range []gen.ParenMode{gen.Minimal, gen.Full, gen.Redundant} {
					if m != gen.Minimal && n > 2 {
						continue
					}
					c11Source(w, "T | where "+gen.ExprText(gen.WrapRoot(e, m)), r.Thorough() && n <= 2)
					c11Source(w, "T | extend "+gen.ExprText(gen.WrapRoot(e, m)), false)
				}
				return !w.Stopped()
			})
		})
	}
	// the same trees at every other place an expression may stand (the walk of each operator reaches its operands
	// through its own code): one prune point at a time
	contexts := []string{
		"T | project x = %s , y = b", "T | project z = %s , w = %s", "T | summarize x = max ( %s ) by k = %s", "T | summarize %s by %s , c",
		"T | summarize count ( ) , %s", "T | sort by %s asc , %s desc nulls first", "T | order by %s", "T | top 2 by %s desc", "T | take %s", "T | limit %s",
		"let v = %s ; T | where v", "let v = 1 ; let w = %s ; T | extend %s", "L | join kind = inner ( R | where %s ) on %s", "L | join ( R | extend %s | project k , z = %s ) on k , %s",
		"T | render barchart with ( title = %s )", "T | where f ( %s ) [ %s ] in ( %s , 1 )", "T | where not ( %s ) and - ( %s ) > 0", "T | as A | where %s | count",
	}
	for n := 1; n <= 2; n++ {
		items := shapes.Items(n)
		r.Sweep(fmt.Sprintf("expr-positions-%d", n), int64(len(items)), func(w *run.Worker, item int64) {
			shapes.Do(items[item], func(sh gen.Expr) bool {
				e := gen.ExprText(gen.WrapRoot(gen.Instantiate(sh, gen.FreshCols()), gen.Minimal))
				for _, c := range contexts {
					c11Source(w, strings.ReplaceAll(c, "%s", e), false)
				}
				return !w.Stopped()
			})
		})
	}
	r.Extra["bounds"] = map[string]any{"corpus_programs": len(corpus), "expr_internal_nodes": N, "expr_positions": len(contexts) + 2, "prune_points": "every single node; pairs on small trees in thorough"}
	r.Sample("T | extend ( a + b ) , x = f ( c ) [ 1 ]")
	r.Sample("T | join kind = inner ( R | where y > 1 ) on ( $left . x ) == $right . y")
}

func c11Replay(w *run.Worker, v *run.Viol) {
	if v.Check == "walk-vs-reflection:unpruned" {
		c11Unpruned(w, v.Source)
		return
	}
	c11Source(w, v.Source, true)
}

func c11Source(w *run.Worker, src string, pairs bool) {
	w.Begin("walk-vs-reflection", src)
	var stmts []parser.Statement
	var err error
	if !w.Try(src, func() { stmts, err = parser.Parse(src) }) {
		return
	}
	if err != nil {
		return // not a program of the grammar as far as this tree is concerned: C07's business
	}
	counted := false
	for si, st := range stmts {
		ref := refTraversal(st)
		if len(ref) >= 3 && !counted {
			w.Nontrivial()
			counted = true
		}
		index := map[parser.Node]int{}
		for i, rn := range ref {
			index[rn.n] = i
		}
		walk := func(prune map[parser.Node]bool) (order []parser.Node, ok bool) {
			ok = w.Try(src, func() {
				parser.Walk(st, func(n parser.Node) bool {
					order = append(order, n)
					if astx.IsNilNode(n) {
						return false
					}
					return !prune[n]
				})
			})
			return
		}
		check := func(prune map[parser.Node]bool, label string) bool {
			order, ok := walk(prune)
			if !ok {
				return false
			}
			// descendants of prune points are excluded from the expectation
			excluded := make([]bool, len(ref))
			for i, rn := range ref {
				if rn.parent >= 0 && (excluded[rn.parent] || prune[ref[rn.parent].n]) {
					excluded[i] = true
				}
			}
			pos := map[parser.Node]int{}
			for k, n := range order {
				if astx.IsNilNode(n) {
					w.Fail("walk:nil-node", src, fmt.Sprintf("%svisitor called with a nil %T (call %d)", label, n, k), nil)
					return false
				}
				ri, known := index[n]
				if !known {
					if isIdentOrExpr(n) {
						w.Fail("walk:foreign-node:"+astx.TypeName(n), src, fmt.Sprintf("%svisited %s %v which the reference traversal does not reach", label, astx.TypeName(n), n.Span()), nil)
						return false
					}
					continue
				}
				if _, dup := pos[n]; dup {
					w.Fail("walk:visited-twice:"+astx.TypeName(n), src, fmt.Sprintf("%s%s %v visited twice", label, astx.TypeName(n), n.Span()), nil)
					return false
				}
				pos[n] = k
				if excluded[ri] && isIdentOrExpr(n) {
					w.Fail("walk:prune-ignored:"+astx.TypeName(n), src, fmt.Sprintf("%s%s %v visited although an ancestor returned false", label, astx.TypeName(n), n.Span()), nil)
					return false
				}
			}
			for i, rn := range ref {
				if excluded[i] || !isIdentOrExpr(rn.n) {
					continue
				}
				k, seen := pos[rn.n]
				if !seen {
					w.Fail("walk:not-visited:"+astx.TypeName(rn.n)+"-in-"+parentType(ref, i), src,
						fmt.Sprintf("%s%s %v (child of %s) never visited", label, astx.TypeName(rn.n), rn.n.Span(), parentType(ref, i)), nil)
					return false
				}
				// nearest visited ancestor must come earlier
				for a := rn.parent; a >= 0; a = ref[a].parent {
					if ka, ok := pos[ref[a].n]; ok {
						if ka > k {
							w.Fail("walk:child-before-parent:"+astx.TypeName(rn.n), src, fmt.Sprintf("%s%s visited before its ancestor %s", label, astx.TypeName(rn.n), astx.TypeName(ref[a].n)), nil)
							return false
						}
						break
					}
				}
			}
			return true
		}
		if !check(nil, "") {
			return
		}
		order, _ := walk(nil)
		for _, p := range order {
			if !check(map[parser.Node]bool{p: true}, fmt.Sprintf("pruning at %s %v: ", astx.TypeName(p), p.Span())) {
				return
			}
		}
		// a visitor may itself call Walk (on the node it is visiting) before pruning there: the outer walk is not disturbed
		if len(order) <= 60 {
			for _, p := range order {
				if astx.IsNilNode(p) {
					continue
				}
				plain, ok1 := walk(map[parser.Node]bool{p: true})
				var outer, inner []parser.Node
				ok2 := w.Try(src, func() {
					parser.Walk(st, func(n parser.Node) bool {
						outer = append(outer, n)
						if n == p {
							parser.Walk(p, func(m parser.Node) bool { inner = append(inner, m); return !astx.IsNilNode(m) })
							return false
						}
						return !astx.IsNilNode(n)
					})
				})
				if !ok1 || !ok2 {
					return
				}
				same := len(plain) == len(outer)
				for i := 0; same && i < len(plain); i++ {
					same = plain[i] == outer[i]
				}
				if !same {
					w.Fail("walk:reentrant:"+astx.TypeName(p), src, fmt.Sprintf("the visitor walks the subtree of %s %v itself and prunes there: the outer walk visits %d nodes, %d when it only prunes", astx.TypeName(p), p.Span(), len(outer), len(plain)), nil)
					return
				}
				sub, ok3 := []parser.Node(nil), true
				ok3 = w.Try(src, func() {
					parser.Walk(p, func(m parser.Node) bool { sub = append(sub, m); return !astx.IsNilNode(m) })
				})
				if !ok3 {
					return
				}
				same = len(sub) == len(inner)
				for i := 0; same && i < len(sub); i++ {
					same = sub[i] == inner[i]
				}
				if !same {
					w.Fail("walk:reentrant-inner:"+astx.TypeName(p), src, fmt.Sprintf("Walk of the subtree of %s %v from inside a visitor visits %d nodes, %d when called on its own", astx.TypeName(p), p.Span(), len(inner), len(sub)), nil)
					return
				}
			}
		}
		// a walk must not depend on earlier walks of the same tree: on a freshly parsed copy, a walk that prunes at one
		// node comes first, then a complete walk, which must visit what the complete walk of the first copy visited
		if len(ref) <= 60 {
			sig := func(ns []parser.Node) string {
				var sb strings.Builder
				for _, n := range ns {
					if astx.IsNilNode(n) {
						sb.WriteString("nil;")
						continue
					}
					fmt.Fprintf(&sb, "%s%v;", astx.TypeName(n), n.Span())
				}
				return sb.String()
			}
			want := sig(order)
			for j := range ref {
				var stmts2 []parser.Statement
				if !w.Try(src, func() { stmts2, _ = parser.Parse(src) }) || len(stmts2) != len(stmts) {
					break
				}
				st2 := stmts2[si]
				ref2 := refTraversal(st2)
				if len(ref2) != len(ref) {
					break
				}
				pn := ref2[j].n
				var second []parser.Node
				if !w.Try(src, func() {
					parser.Walk(st2, func(n parser.Node) bool { return !astx.IsNilNode(n) && n != pn })
					parser.Walk(st2, func(n parser.Node) bool { second = append(second, n); return !astx.IsNilNode(n) })
				}) {
					return
				}
				// the same after a walk that the visitor ended by panicking at that node (the caller recovers)
				var third []parser.Node
				if !w.Try(src, func() {
					func() {
						defer func() { recover() }()
						parser.Walk(st2, func(n parser.Node) bool {
							if n == pn {
								panic("stop")
							}
							return !astx.IsNilNode(n)
						})
					}()
					parser.Walk(st2, func(n parser.Node) bool { third = append(third, n); return !astx.IsNilNode(n) })
				}) {
					return
				}
				if got := sig(third); got != want {
					w.Fail("walk:depends-on-aborted-walk:"+astx.TypeName(pn), src, fmt.Sprintf("after a walk whose visitor panicked at %s %v (recovered by the caller), a complete walk of the same tree makes %d calls; a complete walk of a fresh tree makes %d", astx.TypeName(pn), pn.Span(), len(third), len(order)), nil)
					return
				}
				if got := sig(second); got != want {
					w.Fail("walk:depends-on-earlier-walk:"+astx.TypeName(pn), src, fmt.Sprintf("after a walk that pruned at %s %v, a complete walk of the same tree visits %d nodes; a complete walk of a fresh tree visits %d", astx.TypeName(pn), pn.Span(), len(second), len(order)), nil)
					return
				}
			}
		}
		if pairs && len(order) <= 25 {
			for _, p := range order {
				for _, q := range order {
					if p != q {
						if !check(map[parser.Node]bool{p: true, q: true}, "pruning at two nodes: ") {
							return
						}
					}
				}
			}
		}
	}
}

func parentType(ref []refNode, i int) string {
	if ref[i].parent < 0 {
		return "root"
	}
	return astx.TypeName(ref[ref[i].parent].n)
}

// c11Unpruned checks only the walk without pruning (large programs).
func c11Unpruned(w *run.Worker, src string) {
	w.Begin("walk-vs-reflection:unpruned", src)
	var stmts []parser.Statement
	var err error
	if !w.Try(src, func() { stmts, err = parser.Parse(src) }) || err != nil {
		return
	}
	for _, st := range stmts {
		ref := refTraversal(st)
		seen := map[parser.Node]int{}
		ok := w.Try(src, func() {
			parser.Walk(st, func(n parser.Node) bool {
				if !astx.IsNilNode(n) {
					seen[n]++
				}
				return true
			})
		})
		if !ok {
			return
		}
		w.Nontrivial()
		for _, rn := range ref {
			if isIdentOrExpr(rn.n) && seen[rn.n] != 1 {
				w.Fail("walk:visit-count:"+astx.TypeName(rn.n), src, fmt.Sprintf("%s %v visited %d times in a program of %d nodes", astx.TypeName(rn.n), rn.n.Span(), seen[rn.n], len(ref)), nil)
				return
			}
		}
	}
}
