package main

import (
	"fmt"
	"strings"
	"sync"
	"time"

	"github.com/runreveal/pql"
	"github.com/runreveal/pql/parser"
	"verif/harness/enum"
	"verif/harness/run"
)

func init() { register("C12", "exploration", c12Main, c12Replay) }

var c12Opts = []*pql.CompileOptions{nil, {}, {Parameters: map[string]string{"a": "$1", "T": "$2", "x": "{x:Int32}"}}}

// c12OddOpts: parameter snippets are arbitrary caller text; none may make Compile panic or hang.
var c12OddOpts = []*pql.CompileOptions{
	{Parameters: map[string]string{"a": "", "T": " ", "x": "-", "b": "", "k": "", "n": ""}},
	{Parameters: map[string]string{"a": "--", "T": "'", "x": "(", "b": "\x00", "k": "é\xff", "n": ")"}},
	{Parameters: map[string]string{"a": strings.Repeat("z", 5000), "x": "+", "b": "-1", "n": "1e400"}},
}

// totalOne runs every entry point on src; panics are recorded by Try, hangs by the watchdog.
func totalOne(w *run.Worker, src string) {
	w.Begin("totality", src)
	w.Try(src, func() {
		toks := parser.Scan(src)
		parser.SplitStatements(src)
		stmts, err := parser.Parse(src)
		if len(toks) > 0 {
			w.Nontrivial()
		}
		if err == nil {
			for _, s := range stmts {
				parser.Walk(s, func(n parser.Node) bool { return true })
			}
		}
		for _, o := range c12Opts {
			o.Compile(src)
		}
		for _, o := range c12OddOpts {
			o.Compile(src)
		}
	})
}

// totalEach is totalOne with one watchdog case per entry point (for long inputs).
func totalEach(w *run.Worker, src string) {
	var stmts []parser.Statement
	var err error
	w.Begin("totality:Scan", src)
	w.Nontrivial()
	w.Try(src, func() { parser.Scan(src) })
	w.Begin("totality:SplitStatements", src)
	w.Try(src, func() { parser.SplitStatements(src) })
	w.Begin("totality:Parse", src)
	w.Try(src, func() { stmts, err = parser.Parse(src) })
	if err == nil {
		w.Begin("totality:Walk", src)
		w.Try(src, func() {
			for _, s := range stmts {
				parser.Walk(s, func(n parser.Node) bool { return true })
			}
		})
	}
	for _, o := range append(append([]*pql.CompileOptions{}, c12Opts...), c12OddOpts...) {
		w.Begin("totality:Compile", src)
		w.Try(src, func() { o.Compile(src) })
	}
}

// c12Families are parametric nesting / error-cascade inputs; n is the repetition count.
var c12Families = []struct {
	name string
	make func(n int) string
}{
	{"parens", func(n int) string { return "T | where " + strings.Repeat("(", n) + "a" + strings.Repeat(")", n) }},
	{"calls", func(n int) string { return "T | where " + strings.Repeat("f(", n) + "a" + strings.Repeat(")", n) }},
	{"index", func(n int) string { return "T | where " + strings.Repeat("a[", n) + "1" + strings.Repeat("]", n) }},
	{"neg-parens", func(n int) string { return "T | where " + strings.Repeat("-(", n) + "a" + strings.Repeat(")", n) }},
	{"not", func(n int) string { return "T | where " + strings.Repeat("not(", n) + "a" + strings.Repeat(")", n) }},
	{"joins", func(n int) string { return "T" + strings.Repeat(" | join (R", n) + strings.Repeat(") on k", n) }},
	{"join-seq", func(n int) string { return "T" + strings.Repeat(" | join (R) on k", n) }},
	{"sum-chain", func(n int) string { return "T | where a" + strings.Repeat(" + a", n) }},
	{"and-or-chain", func(n int) string { return "T | where a" + strings.Repeat(" and b or c == d", n) }},
	{"in-nest", func(n int) string { return "T | where " + strings.Repeat("a in (", n) + "1" + strings.Repeat(")", n) }},
	{"semis", func(n int) string { return strings.Repeat(";", n) + "T" + strings.Repeat(";", n) }},
	{"bangs", func(n int) string { return "T | where " + strings.Repeat("!", n) }},
	{"quotes", func(n int) string { return "T | where " + strings.Repeat("'", n) }},
	{"pipes", func(n int) string { return "T" + strings.Repeat(" | ", n) }},
	{"pipeline", func(n int) string {
		return "T" + strings.Repeat(" | where a > 1 | project a, b | sort by a | take 5", n)
	}},
	{"lets", func(n int) string {
		var sb strings.Builder
		sb.WriteString("let x0 = 1;")
		for i := 1; i <= n; i++ {
			fmt.Fprintf(&sb, "let x%d = x%d + 1;", i, i-1)
		}
		fmt.Fprintf(&sb, "T | take x%d", n)
		return sb.String()
	}},
	{"let-double", func(n int) string {
		// value size doubles with every binding
		var sb strings.Builder
		sb.WriteString("let x0 = 1;")
		for i := 1; i <= n; i++ {
			fmt.Fprintf(&sb, "let x%d = x%d + x%d;", i, i-1, i-1)
		}
		fmt.Fprintf(&sb, "T | where x%d > 0", n)
		return sb.String()
	}},
	{"nested-joins-error-innermost", func(n int) string {
		return "T" + strings.Repeat(" | join kind=inner (R", n) + " | where " + strings.Repeat(") on k", n)
	}},
	{"nested-joins-two-errors", func(n int) string {
		return "T | take 1.5" + strings.Repeat(" | join (R | bogus", n) + " | project" + strings.Repeat(") on $left.a == $right.b", n) + " | top x by"
	}},
	// flat inputs with one diagnostic per unit (no nesting): hundreds of diagnostics in a few kilobytes
	{"bad-operators", func(n int) string { return "T" + strings.Repeat("|x", n) }},
	{"bad-statements", func(n int) string { return strings.Repeat("x y;", n) + "T" }},
	{"bad-columns", func(n int) string { return "T | project " + strings.Repeat("1,", n) + "a" }},
	{"bad-sort-terms", func(n int) string { return "T | sort by " + strings.Repeat("asc,", n) + "a" }},
	{"bad-operators-lines", func(n int) string { return "T" + strings.Repeat("\n| bogus 'x", n) }},
	{"unbalanced-close", func(n int) string { return "T | where a" + strings.Repeat(")", n) }},
	{"unbalanced-open", func(n int) string { return "T | where " + strings.Repeat("(", n) }},
	{"open-brackets", func(n int) string { return "T | where " + strings.Repeat("a[(", n) }},
	{"extend-list", func(n int) string { return "T | extend a" + strings.Repeat(", a + b", n) }},
	{"summarize-bad", func(n int) string { return "T | summarize " + strings.Repeat("a[ , ", n) }},
	{"dots", func(n int) string { return "T | where a" + strings.Repeat(".b", n) + strings.Repeat(".", n) }},
	{"strcat", func(n int) string { return "T | project s = strcat(a" + strings.Repeat(", strcat(a, b)", n) + ")" }},
	{"huge-exponent-take", func(n int) string { return "T | sort by a | take 1e" + strings.Repeat("9", 1+n%19) + " | count" }},
	{"huge-exponent-top", func(n int) string { return "T | top (2.5e" + strings.Repeat("4", 1+n%19) + ") by b" }},
	{"huge-exponent-where", func(n int) string {
		return "T | where a > 1e" + strings.Repeat("7", 1+n%24) + " or b < .5E-" + strings.Repeat("3", 1+n%24)
	}},
	{"long-digits", func(n int) string {
		return "T | where a == " + strings.Repeat("9", n) + " | take " + strings.Repeat("1", 1+n%40)
	}},
	{"long-hex", func(n int) string {
		return "T | where a == 0x" + strings.Repeat("f", n) + " | take 0x" + strings.Repeat("0", n%40) + "1"
	}},
	{"long-fraction", func(n int) string {
		return "T | where a == 0." + strings.Repeat("0", n) + "1e" + strings.Repeat("2", 1+n%12)
	}},
	{"comment-lines", func(n int) string { return strings.Repeat("// c\n", n) + "T" + strings.Repeat("\n// d", n) }},
	{"render-props", func(n int) string { return "T | render c with (a=1" + strings.Repeat(", b='x'", n) + ")" }},
}

// c12Wrappers: one-hole expression contexts; every single wrapper is nested to many
// depths and every ordered pair is nested alternately (w1(w2(w1(...)))).
var c12Wrappers = []struct {
	name string
	wrap func(x string) string
}{
	{"paren", func(x string) string { return "(" + x + ")" }},
	{"neg", func(x string) string { return "-(" + x + ")" }},
	{"call", func(x string) string { return "f(" + x + ")" }},
	{"call2", func(x string) string { return "g(1, " + x + ")" }},
	{"not", func(x string) string { return "not(" + x + ")" }},
	{"isnull", func(x string) string { return "isnull(" + x + ")" }},
	{"tolower", func(x string) string { return "tolower(" + x + ")" }},
	{"strcat", func(x string) string { return "strcat('p', " + x + ")" }},
	{"iff-cond", func(x string) string { return "iff(" + x + ", 1, 2)" }},
	{"iff-then", func(x string) string { return "iff(a, " + x + ", 2)" }},
	{"iff-else", func(x string) string { return "iff(a, 1, " + x + ")" }},
	{"iif-else-paren", func(x string) string { return "iif(a > 1, 'L', (" + x + "))" }},
	{"strcat-first", func(x string) string { return "strcat(" + x + ", 'q', b)" }},
	{"index-base", func(x string) string { return "(" + x + ")[1]" }},
	{"index-key", func(x string) string { return "m[" + x + "]" }},
	{"call-index", func(x string) string { return "f(" + x + ")['k']" }},
	{"in-subject", func(x string) string { return "(" + x + ") in (1, 2)" }},
	{"in-value", func(x string) string { return "a in (1, " + x + ")" }},
	{"add-left", func(x string) string { return "(" + x + ") + 1" }},
	{"add-right", func(x string) string { return "1 - (" + x + ")" }},
	{"eq", func(x string) string { return "(" + x + ") == b" }},
	{"and", func(x string) string { return "a and (" + x + ")" }},
	{"ci-eq", func(x string) string { return "(" + x + ") =~ 's'" }},
	{"or-then-mul", func(x string) string { return "a or (" + x + ") * 1" }},
	{"cmp-then-add", func(x string) string { return "a == (" + x + ") + 1" }},
	{"neg-call", func(x string) string { return "-f(" + x + ")" }},
	{"neg-mul", func(x string) string { return "-(a * " + x + ")" }},
}

// c12Bases: the innermost operand; the erroneous ones start error cascades at the bottom of the nest.
var c12Bases = []string{"a", "b +", "", "1 1", "'x", "!", ")", "f(", "a[", "in", "iff()", "iff(a)", "not()", "not(a, b)", "strcat()", "$left.a", "count(1)"}

func nestWrappers(i, j, depth int, base string) string {
	x := base
	for d := 0; d < depth; d++ {
		if d%2 == 0 {
			x = c12Wrappers[i].wrap(x)
		} else {
			x = c12Wrappers[j].wrap(x)
		}
	}
	return x
}

var c12Positions = []func(e string) string{
	func(e string) string { return "T | where " + e },
	func(e string) string { return "let v = " + e + "; T | where v | take 1" },
	func(e string) string { return "T | join (R) on " + e + " | extend " + e },
}

func c12Sizes(maxBytes int, unit int) []int {
	var out []int
	seen := map[int]bool{}
	add := func(n int) {
		if n >= 1 && n*unit <= maxBytes && !seen[n] {
			seen[n] = true
			out = append(out, n)
		}
	}
	for n := 1; n <= 64; n++ {
		add(n)
	}
	for p := 128; p <= maxBytes; p *= 2 {
		add(p - 1)
		add(p)
		add(p + 1)
	}
	add(maxBytes / unit)
	return out
}

func c12Main(r *run.Runner) {
	r.Rule = "Scan, SplitStatements, Parse, Walk (after a successful parse) and Compile (options nil, zero, with parameters) are run on every byte string over the 36-symbol lexer alphabet up to length n, every lexeme sequence of C08's token sweeps, every corruption of the grammar corpus, " +
		"and 26 parametric nesting / error-cascade families for every size up to 64 and powers of two (+-1) up to the stated byte limit; each call must return without panic within " + fmt.Sprint(run.HangSeconds) + " s (typical: microseconds); " +
		"non-trivial = the input has at least one token; distinct by construction"
	r.Assume = []string{"a case exceeding 10 s wall time is a hang; worker death (stack or heap exhaustion) is attributed by the parent process"}
	n := 3
	maxBytes := 2048
	if r.Thorough() {
		n = 4
		maxBytes = 4096
	}
	e := enum.Strings{Alpha: c09Alpha, MaxLen: n, Split: 2}
	type fc struct {
		fam int
		n   int
	}
	var cases []fc
	for fi, f := range c12Families {
		unit := len(f.make(2)) - len(f.make(1))
		if unit < 1 {
			unit = 1
		}
		if f.name == "let-double" {
			for k := 1; k <= 16; k++ {
				cases = append(cases, fc{fi, k})
			}
			continue
		}
		for _, k := range c12Sizes(maxBytes, unit) {
			cases = append(cases, fc{fi, k})
		}
	}
	// systematic nesting: every wrapper alone at every depth, every ordered pair alternating
	type nc struct{ i, j, depth, pos, base int }
	var nests []nc
	for i := range c12Wrappers {
		for d := 1; d <= 48; d++ {
			nests = append(nests, nc{i, i, d, d % len(c12Positions), 0})
		}
		for _, d := range []int{64, 100, 200} {
			nests = append(nests, nc{i, i, d, 0, 0})
		}
		for b := 1; b < len(c12Bases); b++ {
			for _, d := range []int{1, 2, 8, 24, 40, 64} {
				nests = append(nests, nc{i, i, d, 0, b})
			}
		}
		for j := range c12Wrappers {
			if i != j {
				for _, d := range []int{6, 16, 30, 48, 64, 80} {
					nests = append(nests, nc{i, j, d, (i + j) % len(c12Positions), 0})
				}
				for _, d := range []int{30, 64} {
					nests = append(nests, nc{i, j, d, 0, 1 + (i+j)%(len(c12Bases)-1)})
				}
			}
		}
	}
	// The families run on two workers with a 30 s limit per call: these inputs are
	// kilobytes long and some are legitimately quadratic (seconds at 4 KiB).
	r.MaxWorkers = 2
	r.HangLimit.Store(30)
	if !r.Thorough() {
		// 2 KiB inputs: the slowest call on the unchanged tree takes about 1 s (accepted quadratic cascades)
		r.HangLimit.Store(12)
	}
	var slowMu sync.Mutex
	slowest := map[string]float64{}
	r.Sweep("families", int64(len(cases)), func(w *run.Worker, item int64) {
		c := cases[item]
		src := c12Families[c.fam].make(c.n)
		t0 := time.Now()
		totalEach(w, src)
		d := time.Since(t0).Seconds()
		slowMu.Lock()
		if d > slowest[c12Families[c.fam].name] {
			slowest[c12Families[c.fam].name] = d
		}
		slowMu.Unlock()
	})
	r.MaxWorkers = 4
	r.Sweep("nesting-wrappers", int64(len(nests)), func(w *run.Worker, item int64) {
		n := nests[item]
		base := c12Bases[n.base]
		if n.pos == 1 && n.base == 0 {
			base = "1" // let values are closed expressions
		}
		totalEach(w, c12Positions[n.pos](nestWrappers(n.i, n.j, n.depth, base)))
	})
	r.MaxWorkers = 0
	r.HangLimit.Store(0)
	// odd tokens where a diagnostic quotes them: long / unterminated / ending in partial or stray UTF-8 sequences
	type odd struct {
		n, m int
		tail string
	}
	var odds []odd
	for _, n := range []int{0, 1, 30, 33, 34, 35, 60, 62, 63, 64, 65, 66, 100, 127, 128, 129, 255, 256, 257, 1000} {
		for _, m := range []int{1, 2, 3, 4, 29, 30, 31, 32, 33, 63, 64, 65, 128} {
			for _, tail := range []string{"\x80", "\xbf", "\xc2", "\xe2\x80", "\xf0\x9f", "\xff", "é", "\u2028", "\U0001F600", "%", "\\", "\x00", "\n"} {
				odds = append(odds, odd{n, m, tail})
			}
		}
	}
	oddCtx := []string{"%s", "T | %s", "T | where a == %s", "T | where a == 1 %s", "T | take %s", "T | join kind=%s (R) on k", "let %s = 1; T", "T | where f(%s", "T | project %s = 1", "T | render %s", "T | sort by a %s", "T | as %s", "T | where a in (1, %s"}
	r.Sweep("odd-tokens", int64(len(odds)), func(w *run.Worker, item int64) {
		o := odds[item]
		body := strings.Repeat("a", o.n) + strings.Repeat(o.tail, o.m)
		for _, shape := range []string{"'" + body, "`" + body, "\"" + body, "'" + body + "'", "`" + body + "`", body, "1" + body, "//" + body, "0x" + body} {
			for _, c := range oddCtx {
				totalOne(w, strings.Replace(c, "%s", shape, 1))
			}
		}
	})
	// one rune of every class that a scanner may classify with a Unicode table instead of an ASCII test (digits, letters,
	// letter-numbers, marks, spaces, format characters), where a token starts or continues
	odd2 := []string{"５", "٣", "߃", "०", "𝟗", "²", "½", "Ⅷ", "〇", "é", "λ", "中", "ａ", "Ａ", "ǅ", "ʰ", "ª", "\u0301", "\u20dd", "\u00a0", "\u1680", "\u2003", "\u2028", "\u2029", "\u3000", "\u0085", "\ufeff", "\u200b", "\u200d", "\u00ad", "＿", "＄", "‿", "．", "；", "｜", "＇", "／", "\U000e0001", "\ufffd"}
	r.Sweep("rune-classes", int64(len(odd2)), func(w *run.Worker, item int64) {
		u := odd2[item]
		for _, shape := range []string{u, u + u, "1" + u, "1" + u + "2", "a" + u, "a" + u + "b", "0x" + u, "0x1" + u + "f", "1e" + u, "1e+" + u, "1." + u, "." + u, u + "1", u + "a", "$" + u, "_" + u, "-" + u, "/" + u, "//" + u + "\n" + u, "'" + u, "`" + u + "`" + u, u + " " + u, u + ";" + u, u + "|" + u} {
			for _, c := range oddCtx {
				totalOne(w, strings.Replace(c, "%s", shape, 1))
			}
			totalOne(w, shape+"T | take 1")
			totalOne(w, "T | take 1"+shape)
		}
	})
	// unnamed columns are named after their source text: expressions that contain comment-like or quote-like text inside
	// string literals and quoted names, laid out over one or several lines (LF / CRLF / indentation / real comments)
	unnamed := [][]string{
		{"strcat", "(", "scheme", ",", `"://"`, ",", "host", ")"}, {"strcat", "(", "a", ",", `'--'`, ",", `"/*"`, ",", "b", ")"}, {"a", "==", `'x // y'`}, {"`col // x`", "+", "1"},
		{"tolower", "(", `"// only"`, ")"}, {"f", "(", `'a\'b'`, ",", `"c\"d"`, ")"}, {"m", "[", `'k//'`, "]"}, {"a", "in", "(", `'//'`, ",", `"*/"`, ")"}, {"`q``r`", "==", "'`'"},
		{"strcat", "(", `'\\'`, ",", `"//"`, ")"}, {"a", "+", "b"}, {"count", "(", ")"}, {"iff", "(", "a", ",", `"y // n"`, ",", `'/'`, ")"},
	}
	unnamedCtx := []string{"T | extend %s", "T | extend b, %s | count", "T | summarize %s by k", "T | summarize count() by %s", "T | summarize max(a) by k, %s | project k", "T | join (R | summarize count() by %s) on k", "T | extend %s, %s | sort by k"}
	seps12 := []string{" ", "\n", "\r\n", "\n  ", " // c\n", "\t", " //\n"}
	r.Sweep("implicit-name-layouts", int64(len(unnamed)*len(unnamedCtx)), func(w *run.Worker, item int64) {
		lex := unnamed[item/int64(len(unnamedCtx))]
		ctx := unnamedCtx[item%int64(len(unnamedCtx))]
		var texts []string
		for _, sp := range seps12 {
			texts = append(texts, strings.Join(lex, sp))
			for gap := 1; gap < len(lex); gap++ {
				texts = append(texts, strings.Join(lex[:gap], "")+sp+strings.Join(lex[gap:], ""), strings.Join(lex[:gap], " ")+sp+strings.Join(lex[gap:], " "))
			}
		}
		for _, t := range texts {
			totalOne(w, strings.ReplaceAll(ctx, "%s", t))
		}
	})
	r.Sweep("bytes36", e.Items(), func(w *run.Worker, item int64) {
		e.Do(item, func(buf []byte, _ []int) bool {
			totalOne(w, string(buf))
			return !w.Stopped()
		})
	})
	b1 := tokenSweeps(r, 3, 4, totalOne)
	b2 := corruptionSweep(r, totalOne)
	r.Extra["slowest_family_case_seconds"] = slowest
	fam := []string{}
	for _, f := range c12Families {
		fam = append(fam, f.name)
	}
	r.Extra["bounds"] = map[string]any{"bytes36_max_len": n, "bytes36_strings": e.Total(), "token_sequences": b1, "corruptions": b2,
		"families": fam, "family_cases": len(cases), "family_max_bytes": maxBytes, "nesting_wrappers": len(c12Wrappers), "nesting_cases": len(nests)}
	r.Sample(c12Families[0].make(3))
	r.Sample(c12Families[5].make(2))
	r.Sample(c12Families[21].make(3))
}

func c12Replay(w *run.Worker, v *run.Viol) { totalEach(w, v.Source) }
