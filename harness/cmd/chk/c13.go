package main

import (
	"fmt"
	"strings"

	"github.com/runreveal/pql"
	"github.com/runreveal/pql/parser"
	"verif/harness/gen"
	"verif/harness/run"
)

func init() { register("C13", "exploration", c13Main, c13Replay) }

// c13Either checks the SQL-xor-error contract on one source.
func c13Either(w *run.Worker, src string) {
	w.Begin("sql-xor-error", src)
	for oi, o := range c12Opts {
		var sql string
		var err error
		if !w.Try(src, func() { sql, err = o.Compile(src) }) {
			return
		}
		if oi == 0 && err == nil {
			w.Nontrivial()
		}
		if (sql != "") == (err != nil) {
			w.Fail("either:both-or-neither", src, fmt.Sprintf("Compile returned sql=%q err=%v (options #%d)", sql, err, oi), nil)
			return
		}
	}
}

// ---- planted rule violations ----

// exprSlot is a place in a program where an expression can be substituted.
type c13Program struct {
	name string
	// build returns the source with the expression text e planted at the slot.
	build func(e string) string
	// join tells whether the slot is a join condition (where $left/$right are legal).
	join bool
	// let tells whether the slot is inside a let value (closed expressions only).
	let bool
}

func c13Slots() []c13Program {
	var out []c13Program
	add := func(name string, join, let bool, f func(e string) string) {
		out = append(out, c13Program{name: name, build: f, join: join, let: let})
	}
	add("where", false, false, func(e string) string { return "T | where " + e })
	add("where-after-ops", false, false, func(e string) string { return "T | project a, b | take 3 | where " + e + " | count" })
	add("project", false, false, func(e string) string { return "T | project x = " + e + ", b" })
	add("extend-named", false, false, func(e string) string { return "T | extend x = " + e })
	add("extend-unnamed", false, false, func(e string) string { return "T | extend b, " + e })
	add("summarize-agg", false, false, func(e string) string { return "T | summarize n = count(), m = max(" + e + ") by b" })
	add("summarize-key", false, false, func(e string) string { return "T | summarize count() by k = " + e })
	add("sort", false, false, func(e string) string { return "T | sort by b desc, " + e + " asc nulls last" })
	add("top-by", false, false, func(e string) string { return "T | top 3 by " + e })
	add("join-on", true, false, func(e string) string { return "T | join kind=inner (R) on k, " + e })
	add("right-side-where", false, false, func(e string) string { return "T | join (R | where " + e + ") on k" })
	add("nested-right-side", false, false, func(e string) string {
		return "T | join (R | join kind=leftouter (C | extend z = " + e + ") on k) on k | count"
	})
	add("after-join", false, false, func(e string) string { return "T | join (R) on k | where " + e })
	// every operator slot followed and preceded by every kind of operator (a later operator must not hide the check)
	followers := []string{"take 1", "top 1 by b", "sort by b", "count", "where b", "project b", "extend z = 1", "summarize count() by b", "as Q", "render chart", "join (R) on k"}
	for _, f := range followers {
		f := f
		add("sort-then-"+f, false, false, func(e string) string { return "T | sort by " + e + " | " + f })
		add("top-then-"+f, false, false, func(e string) string { return "T | top 2 by " + e + " | " + f })
		add("where-then-"+f, false, false, func(e string) string { return "T | where " + e + " | " + f })
		add("extend-then-"+f, false, false, func(e string) string { return "T | extend x = " + e + " | " + f })
		add(f+"-then-sort", false, false, func(e string) string { return "T | " + f + " | sort by " + e })
	}
	// every expression-carrying operator as the LAST operator of a join's right-hand side (and nested, and after others)
	for _, rs := range []struct{ name, pre, post string }{
		{"sort", "sort by ", ""}, {"sort-asc", "sort by b, ", " asc"}, {"top", "top 2 by ", ""}, {"where", "where ", ""},
		{"extend", "extend z = ", ""}, {"project", "project k, z = ", ""}, {"summarize", "summarize n = max(", ") by k"}, {"summarize-key", "summarize count() by k, j = ", ""},
	} {
		rs := rs
		add("right-side-last-"+rs.name, false, false, func(e string) string { return "T | join (R | " + rs.pre + e + rs.post + ") on k" })
		add("right-side-after-where-"+rs.name, false, false, func(e string) string {
			return "T | where a | join kind=leftouter (R | where y > 1 | " + rs.pre + e + rs.post + ") on k | count"
		})
		add("nested-right-side-last-"+rs.name, false, false, func(e string) string {
			return "T | join (R | join kind=inner (C | " + rs.pre + e + rs.post + ") on k) on k"
		})
	}
	// output names assigned twice in one operator: the earlier expression is still an expression of the program
	add("extend-reassigned", false, false, func(e string) string {
		return "T | where a > 1 | extend x = " + e + ", n = a + 1, x = isnull(b) | take 5"
	})
	add("project-reassigned", false, false, func(e string) string { return "T | project x = " + e + ", b, x = a" })
	add("summarize-reassigned", false, false, func(e string) string { return "T | summarize x = max(" + e + "), x = count() by b" })
	add("summarize-key-reassigned", false, false, func(e string) string { return "T | summarize count() by k = " + e + ", k = b" })
	add("sort-repeated", false, false, func(e string) string { return "T | sort by " + e + ", b, " + e })
	add("right-side-extend-reassigned", false, false, func(e string) string { return "T | join kind=inner (U | extend w = " + e + ", w = v) on k | count" })
	// the unselected branch of an iff whose condition is a binding; a violation late on a line that has multi-byte text before it
	add("iff-then-under-bound-false", false, false, func(e string) string { return "let strict = false; T | extend v = iff(strict, " + e + ", c) | take 3" })
	add("iff-else-under-bound-true", false, false, func(e string) string {
		return "let on = true; let off = false; T | where iff(on, 1, " + e + ") > 0 | project a"
	})
	add("iff-under-bound-null", false, false, func(e string) string { return "let u = null; T | extend v = iff(u, " + e + ", " + e + ")" })
	add("after-multibyte-text", false, false, func(e string) string { return "Cities | where name == \"Zürich–Genève–Köln\" and " + e })
	add("after-multibyte-text-long", false, false, func(e string) string {
		return "T | where s == '" + strings.Repeat("é–", 40) + "' | extend `ü` = 1\n| where t == \"日本語日本語日本語\" or " + e
	})
	add("let-value", false, true, func(e string) string { return "let v = " + e + "; T | take 5" })
	add("let-value-second", false, true, func(e string) string { return "let u = 1; let v = u + " + e + "; T | where a > v" })
	add("let-value-after-bindings", false, true, func(e string) string {
		return "let p = 1; let q = 2; let v = (q - p) * " + e + "; T | extend y = v | take 3"
	})
	add("let-value-before-its-bindings", false, true, func(e string) string { return "let v = 1 + " + e + "; let p = 1; let q = 2; T | where a > v" })
	add("let-value-reassigned", false, true, func(e string) string { return "let v = " + e + "; let v = 2; T | take v" })
	return out
}

// wrappers put an expression at some depth inside a larger expression.
func c13Wrappers(closed bool) []func(string) string {
	w := []func(string) string{
		func(e string) string { return e },
		func(e string) string { return "(" + e + ")" },
		func(e string) string { return "1 + " + e },
		func(e string) string { return "-(" + e + ") * 2" },
		func(e string) string { return "f(1, " + e + ")" },
		func(e string) string { return "1 in (2, " + e + ")" },
		func(e string) string { return "strcat('p', tolower(" + e + "))" },
		func(e string) string { return "iff(true, " + e + ", null)" },
		func(e string) string { return "not(isnull((" + e + ")))" },
		func(e string) string { return "iff(1 == 2, 'x', " + e + ")" },
		func(e string) string { return "iif(true, 1, iff(false, 2, (" + e + ")))" },
		func(e string) string { return "strcat('a', 'b', 'c', " + e + ")" },
		func(e string) string { return "f(g(h(1, 2, " + e + ")))" },
		func(e string) string { return "g(" + e + ")[1]" },
		func(e string) string { return "g(1)[" + e + "]" },
		// shapes an optimiser might special-case (the planted calls have the arguments 1, 2, ...)
		func(e string) string { return "iff(" + e + ", 0, 1)" },
		func(e string) string { return "iff(" + e + ", 1, 0)" },
		func(e string) string { return "iif(" + e + ", 1, 1)" },
		func(e string) string { return "iff(isnull(1), 1, " + e + ")" },
		func(e string) string { return "iff(isnotnull(1), " + e + ", 1)" },
		func(e string) string { return "not(not(" + e + "))" },
		func(e string) string { return "not(" + e + " == 1)" },
		func(e string) string { return e + " == true" },
		func(e string) string { return "tolower(toupper(strcat(" + e + ")))" },
		func(e string) string { return e + " + 0" },
		func(e string) string { return "1 * " + e },
		func(e string) string { return "(" + e + " and true) or false" },
		func(e string) string { return "iff(true, " + e + ", " + e + ")" },
		func(e string) string { return "(" + e + ") in (" + e + ")" },
		func(e string) string { return "isnull(" + e + ") or isnotnull(" + e + ")" },
	}
	if !closed {
		w = append(w,
			func(e string) string { return "a == " + e + " and b" },
			func(e string) string { return "m[" + e + "]" },
		)
	}
	return w
}

type arity struct {
	fn     string
	ok     []int
	notOk  []int
	aggCtx bool
}

var c13Arities = []arity{
	{"not", []int{1}, []int{0, 2, 3}, false},
	{"isnull", []int{1}, []int{0, 2, 3}, false},
	{"isnotnull", []int{1}, []int{0, 2, 4}, false},
	{"tolower", []int{1}, []int{0, 2, 3}, false},
	{"toupper", []int{1}, []int{0, 2, 3}, false},
	{"countif", []int{1}, []int{0, 2, 3}, true},
	{"now", []int{0}, []int{1, 2}, false},
	{"count", []int{0}, []int{1, 2}, true},
	{"iff", []int{3}, []int{0, 1, 2, 4}, false},
	{"iif", []int{3}, []int{0, 1, 2, 4}, false},
	{"strcat", []int{1, 2, 3, 4}, []int{0}, false},
}

func callText(fn string, n int) string {
	args := make([]string, n)
	for i := range args {
		args[i] = fmt.Sprint(i + 1)
	}
	return fn + "(" + strings.Join(args, ", ") + ")"
}

func c13Main(r *run.Runner) {
	r.Rule = "(a) SQL-xor-error contract on every lexeme sequence of the token sweeps, every corruption of the grammar corpus and every planted program; " +
		"(b) for every expression slot (70 positions: every expression-carrying operator, alone and followed/preceded by every other operator, nested join right-hand sides, let values) x every wrapper (13 nesting contexts) x every rule (built-in arities 0..4, $left/$right outside on, open identifiers in let values, unknown join kind, non-integer row counts, no / several tabular statements) the program with exactly one planted violation must fail and its unplanted twin must compile; " +
		"every grammar-corpus program that breaks no rule must compile; non-trivial = Compile was reached with a program that parses; distinct by construction"
	r.Assume = []string{"rule list is the one in the property statement", "$left/$right as table or alias names and render property values are not expression references"}
	slots := c13Slots()
	mustFail := func(w *run.Worker, src, rule string) {
		c13Either(w, src)
		w.Begin("planted-violation-rejected", src)
		w.Nontrivial()
		var sql string
		var err error
		if !w.Try(src, func() { sql, err = pql.Compile(src) }) {
			return
		}
		if err == nil {
			w.Fail("rule-not-enforced:"+rule, src, fmt.Sprintf("program breaks the rule %q but compiled to %q", rule, sql), map[string]any{"expect": "fail", "rule": rule})
		}
	}
	mustCompile := func(w *run.Worker, src, what string) {
		c13Either(w, src)
		w.Begin("harmless-program-compiles", src)
		w.Nontrivial()
		var err error
		if !w.Try(src, func() { _, err = pql.Compile(src) }) {
			return
		}
		if err != nil {
			w.Fail("harmless-rejected:"+what, src, fmt.Sprintf("program breaks no rule (%s) but was rejected: %v", what, err), map[string]any{"expect": "compile", "rule": what})
		}
	}
	r.Sweep("planted", int64(len(slots)), func(w *run.Worker, item int64) {
		sl := slots[item]
		for _, wr := range c13Wrappers(sl.let) {
			base := "5"
			if !sl.let {
				base = "b"
			}
			mustCompile(w, sl.build(wr(base)), "twin:"+sl.name)
			// built-in arities
			for _, a := range c13Arities {
				for _, n := range a.ok {
					mustCompile(w, sl.build(wr(callText(a.fn, n))), "arity-ok:"+a.fn)
				}
				for _, n := range a.notOk {
					mustFail(w, sl.build(wr(callText(a.fn, n))), fmt.Sprintf("arity:%s/%d", a.fn, n))
				}
			}
			// $left / $right
			for _, side := range []string{"$left", "$right"} {
				src := sl.build(wr(side + ".k"))
				if sl.join {
					mustCompile(w, src, "join-side-in-on")
				} else {
					mustFail(w, src, "join-side-outside-on:"+side)
				}
				if !sl.join {
					mustFail(w, sl.build(wr(side)), "join-side-outside-on:"+side)
				}
			}
			// let values must be closed
			if sl.let {
				for _, open := range []string{"a", "`a`", "t.a", "`t`.`a`", "a.b.c", "p.q", "q.p", "p.p", "u.u", "v.v", "p.q.p", "`p`.q", "p.`q`"} {
					mustFail(w, sl.build(wr(open)), "let-open-identifier")
				}
				for _, closed := range []string{"true", "null", "'s'", "1.5", "now()", "f(2)"} {
					mustCompile(w, sl.build(wr(closed)), "let-closed")
				}
			}
		}
	})
	// statement-level rules
	r.Serial(func(w *run.Worker) {
		for _, src := range []string{"", ";", ";;;", "let x = 1", "let x = 1;", "let x = 1; let y = x;", "// only a comment\n", " \n\t"} {
			mustFail(w, src, "no-tabular-statement")
		}
		for _, src := range []string{"T; U", "T | count; T | count", "let x = 1; T; U | take x", "T;;U;", "T | where a; let x = 1; U"} {
			mustFail(w, src, "several-tabular-statements")
		}
		for _, src := range []string{"T", "T;", ";T;;", "let x = 1; T", "T; let x = 1", "let x = 1; let x = 2; T | take x"} {
			mustCompile(w, src, "one-tabular-statement")
		}
		// join kinds
		for _, pre := range []string{"T | ", "T | where a | ", "T | join (R) on k | ", "T | join (R | "} {
			suffix := ""
			if strings.HasSuffix(pre, "(R | ") {
				suffix = ") on k"
			}
			for _, k := range []string{"inner", "innerunique", "leftouter"} {
				mustCompile(w, pre+"join kind="+k+" (S) on k"+suffix, "join-kind-known")
			}
			for _, k := range []string{"outer", "rightouter", "fullouter", "leftsemi", "Inner", "x", "kind"} {
				mustFail(w, pre+"join kind="+k+" (S) on k"+suffix, "join-kind-unknown")
			}
		}
		// row counts
		for _, form := range []string{"T | take %s", "T | limit %s", "T | top %s by a", "T | where a | take %s | count", "T | join (R | take %s) on k", "T | join (R | top %s by y) on k"} {
			for _, n := range []string{"0", "1", "007", "0x10", "100000", "(3)", "((3))", "2147483648", "4294967296", "9223372036854775807", "9223372036854775808", "18446744073709551615", "0x7FFFFFFFFFFFFFFF", "0xFFFFFFFFFFFFFFFF", "0x1e", "0xE0", "0XBEEF", "0xe", "(0x1E5)", "0xfe", "(0x8000000000000000)", "00000000000000000000000000000012"} {
				mustCompile(w, fmt.Sprintf(form, n), "row-count-integer")
			}
			for _, n := range []string{"1.5", "1e3", ".5", "1.", "0.0", "1E2", "'x'", "\"3\"", "(1.5)", "((2.5))", "('x')"} {
				mustFail(w, fmt.Sprintf(form, n), "row-count-not-integer")
			}
		}
	})
	// large but valid let expansions compile (doubling chains, many long string bindings of which one is used)
	r.Sweep("large-let-expansions", 8, func(w *run.Worker, item int64) {
		var sb strings.Builder
		if item < 5 {
			depth := 16 + int(item)
			sb.WriteString("let s0 = 1; ")
			for i := 1; i <= depth; i++ {
				fmt.Fprintf(&sb, "let s%d = s%d + s%d; ", i, i-1, i-1)
			}
			fmt.Fprintf(&sb, "T | where a == s%d | take 1", depth)
		} else {
			n := []int{10, 40, 100}[item-5]
			for i := 0; i < n; i++ {
				fmt.Fprintf(&sb, "let t%d = '%s';\n", i, strings.Repeat("x", 30000))
			}
			sb.WriteString("T | where a == t3 | take 1")
		}
		mustCompile(w, sb.String(), "large-let-expansion")
	})
	// string literals and quoted names with every escape at the start, in the middle and at the end of the body (an escaped
	// backslash directly before the closing quote among them) break no rule
	var bodies []string
	for _, e := range []string{`\\`, `\'`, `\"`, `\n`, `\t`, `\\\\`, `\\\'`, `C:\\`} {
		bodies = append(bodies, e, "x"+e, e+"y", "x"+e+"y", e+e)
	}
	strCtx := []string{"T | where a == %s", "T | extend s = %s | where s != %s", "let v = %s; T | where a == v", "T | where a in (%s, 'z') | project b = strcat(a, %s)", "T | join (R | where b == %s) on k", "T | where f(%s)[%s] == 1 | take 1"}
	r.Sweep("string-escapes-compile", int64(len(bodies)), func(w *run.Worker, item int64) {
		for _, q := range []string{"'", "\""} {
			lit := q + bodies[item] + q
			for _, c := range strCtx {
				mustCompile(w, strings.ReplaceAll(c, "%s", lit), "string-escape")
			}
		}
	})
	// arity rules do not wrap around at large argument counts
	r.Sweep("large-arities", int64(len(c13Arities)), func(w *run.Worker, item int64) {
		a := c13Arities[item]
		for _, n := range []int{5, 16, 31, 32, 33, 127, 128, 129, 255, 256, 257, 258, 259, 260, 511, 512, 513, 1024} {
			ok := a.fn == "strcat"
			for _, form := range []string{"T | where %s > 1", "T | join (R | extend z = %s) on k", "let v = %s; T | take 1"} {
				src := fmt.Sprintf(form, callText(a.fn, n))
				if ok {
					mustCompile(w, src, "arity-ok:"+a.fn)
				} else {
					mustFail(w, src, fmt.Sprintf("arity:%s/large", a.fn))
				}
			}
		}
	})
	// every corpus program breaks no rule unless it says so itself
	corpus := gen.Programs()
	r.Sweep("corpus-compiles", int64(len(corpus)), func(w *run.Worker, item int64) {
		p := corpus[item]
		tab := 0
		for _, s := range p.Stmts {
			if _, ok := s.(*gen.Pipeline); ok {
				tab++
			}
		}
		pr := gen.Print(p)
		src := pr.Layout(pr.Uniform(" ")).Source
		if _, err := parser.Parse(src); err != nil {
			return
		}
		if tab != 1 {
			mustFail(w, src, "tabular-statement-count")
			return
		}
		mustCompile(w, src, "corpus")
	})
	scaleThorough = r.Thorough()
	scale := scalePrograms()
	r.Sweep("scale-compiles", int64(len(scale)), func(w *run.Worker, item int64) {
		pr := gen.Print(scale[item])
		mustCompile(w, pr.Layout(pr.Uniform(" ")).Source, "scale")
	})
	// the large enumerations last: the families above must not be starved by the tier deadline
	b1 := tokenSweeps(r, 3, 4, c13Either)
	b2 := corruptionSweep(r, c13Either)
	r.Extra["bounds"] = map[string]any{"scale_programs": len(scale), "token_sequences": b1, "corruptions": b2, "slots": len(slots), "wrappers": len(c13Wrappers(false)), "corpus_programs": len(corpus)}
	r.Sample(slots[11].build(c13Wrappers(false)[4](callText("iff", 2))))
	r.Sample(slots[13].build(c13Wrappers(true)[6]("`a`")))
}

func c13Replay(w *run.Worker, v *run.Viol) {
	src := v.Source
	if v.Check == "sql-xor-error" {
		c13Either(w, src)
		return
	}
	w.Begin(v.Check, src)
	_, err := pql.Compile(src)
	if v.Extra["expect"] == "fail" && err == nil {
		w.Fail(v.Sig, src, "compiled", nil)
	}
	if v.Extra["expect"] == "compile" && err != nil {
		w.Fail(v.Sig, src, err.Error(), nil)
	}
}
