package main

import (
	"encoding/json"
	"fmt"
	"os"
	"os/exec"
	"path/filepath"
	"strings"

	"verif/harness/run"
	"verif/harness/sched/instr"
)

func init() {
	checks["C14"] = &check{level: "model_checking", external: c14External}
}

// buildC14Driver instruments the current tree (through the mutant overlay, if any),
// writes a build overlay and builds cmd/c14drv against it.
func buildC14Driver() (string, error) {
	scratch := os.Getenv("VERIF_SCRATCH")
	if scratch == "" {
		d, err := os.MkdirTemp("", "verif-c14-")
		if err != nil {
			return "", err
		}
		scratch = d
	}
	replace := map[string]string{}
	if ov := os.Getenv("VERIF_OVERLAY"); ov != "" {
		b, err := os.ReadFile(ov)
		if err != nil {
			return "", err
		}
		var o struct{ Replace map[string]string }
		if err := json.Unmarshal(b, &o); err != nil {
			return "", err
		}
		for k, v := range o.Replace {
			replace[k] = v
		}
	}
	resolve := func(p string) string {
		if r, ok := replace[p]; ok && r != "" {
			return r
		}
		return p
	}
	out := map[string]string{}
	for k, v := range replace {
		out[k] = v
	}
	total := 0
	uncontrolled := 0
	rewritten := 0
	for _, pk := range []struct{ dir, path string }{{"/repo", "github.com/runreveal/pql"}, {"/repo/parser", "github.com/runreveal/pql/parser"}} {
		res, err := instr.Package(pk.dir, pk.path, resolve)
		if err != nil {
			return "", fmt.Errorf("instrument %s: %v", pk.path, err)
		}
		total += res.Points
		uncontrolled += res.Uncontrolled
		rewritten += res.Rewritten
		for orig, src := range res.Files {
			rel := strings.TrimPrefix(orig, "/repo/")
			dst := filepath.Join(scratch, "instr", rel+".instrumented")
			os.MkdirAll(filepath.Dir(dst), 0o755)
			if err := os.WriteFile(dst, src, 0o644); err != nil {
				return "", err
			}
			out[orig] = dst
		}
	}
	here := filepath.Join(run.VerifDir, "harness", "sched", "verifrt")
	out["/repo/verifrt/rt.go"] = filepath.Join(here, "rt.go")
	out["/repo/verifrt/sync/sync.go"] = filepath.Join(here, "sync", "sync.go")
	out["/repo/verifrt/atomic/atomic.go"] = filepath.Join(here, "atomic", "atomic.go")
	ovPath := filepath.Join(scratch, "c14-overlay.json")
	b, _ := json.MarshalIndent(map[string]any{"Replace": out}, "", " ")
	if err := os.WriteFile(ovPath, b, 0o644); err != nil {
		return "", err
	}
	bin := filepath.Join(scratch, "c14drv")
	cmd := exec.Command("go", "build", "-tags", "verif", "-overlay", ovPath, "-o", bin, "./cmd/c14drv")
	cmd.Dir = filepath.Join(run.VerifDir, "harness")
	if o, err := cmd.CombinedOutput(); err != nil {
		return "", fmt.Errorf("build of the instrumented driver failed: %v\n%s", err, o)
	}
	fmt.Fprintf(os.Stderr, "C14: instrumented %d access sites\n", total)
	if rewritten > 0 {
		fmt.Fprintf(os.Stderr, "C14: %d go statements / channel operations of the code under test are run as controlled threads\n", rewritten)
		os.Setenv("VERIF_C14_REWRITTEN", fmt.Sprint(rewritten))
	}
	if uncontrolled > 0 {
		fmt.Fprintf(os.Stderr, "C14: the code under test has %d go statements / channel operations, which the cooperative scheduler does not control\n", uncontrolled)
		os.Setenv("VERIF_C14_UNCONTROLLED", fmt.Sprint(uncontrolled))
	}
	return bin, nil
}

// c14RacePass builds cmd/c14race with -race (through the mutant overlay, if any)
// and runs it in n fresh processes. It returns a description of the first data race or mismatch.
func c14RacePass(n int) (string, error) {
	scratch := os.Getenv("VERIF_SCRATCH")
	if scratch == "" {
		scratch = os.TempDir()
	}
	bin := filepath.Join(scratch, "c14race")
	args := []string{"build", "-race"}
	if ov := os.Getenv("VERIF_OVERLAY"); ov != "" {
		args = append(args, "-overlay", ov)
	}
	args = append(args, "-o", bin, "./cmd/c14race")
	cmd := exec.Command("go", args...)
	cmd.Dir = filepath.Join(run.VerifDir, "harness")
	if o, err := cmd.CombinedOutput(); err != nil {
		return "", fmt.Errorf("race build failed: %v\n%s", err, o)
	}
	type res struct {
		out string
		err error
	}
	ch := make(chan res, n)
	sem := make(chan struct{}, 8)
	for i := 0; i < n; i++ {
		i := i
		go func() {
			sem <- struct{}{}
			defer func() { <-sem }()
			c := exec.Command(bin)
			if i < 2 {
				// two of the processes also run the repeat-determinism pass over the grammar corpus
				c = exec.Command(bin, "det")
			}
			c.Env = append(os.Environ(), "GORACE=halt_on_error=1 exitcode=66")
			o, err := c.CombinedOutput()
			ch <- res{string(o), err}
		}()
	}
	for i := 0; i < n; i++ {
		r := <-ch
		if r.err != nil {
			out := r.out
			if len(out) > 3000 {
				out = out[:3000]
			}
			return out, nil
		}
	}
	return "", nil
}

func c14External(args []string) int {
	bin, err := buildC14Driver()
	if err != nil {
		fmt.Fprintf(os.Stderr, "CHECK-ERROR %v\n", err)
		return 2
	}
	if len(args) > 0 && (args[0] == "quick" || args[0] == "thorough") {
		n := 24
		if args[0] == "thorough" {
			n = 200
		}
		problem, err := c14RacePass(n)
		if err != nil {
			fmt.Fprintf(os.Stderr, "CHECK-ERROR %v\n", err)
			return 2
		}
		os.Setenv("VERIF_C14_RACE_RUNS", fmt.Sprint(n))
		if problem != "" {
			os.MkdirAll(filepath.Join(run.VerifDir, "replays"), 0o755)
			path := filepath.Join(run.VerifDir, "replays", "C14-race-pass.json")
			b, _ := json.MarshalIndent(map[string]any{"property": "C14", "check": "free-running-race-pass", "signature": "data-race:free-running", "detail": problem}, "", " ")
			os.WriteFile(path, b, 0o644)
			fmt.Printf("VIOLATION property=C14 replay=%s\n  free-running pass under the race detector (fresh processes, real goroutines):\n  %s\n", path, strings.ReplaceAll(problem, "\n", "\n  "))
			// still run the explorer for its own report
			cmd := exec.Command(bin, args...)
			cmd.Stdout, cmd.Stderr = os.Stdout, os.Stderr
			cmd.Env = append(os.Environ(), "VERIF_CHILD=1")
			cmd.Run()
			return 1
		}
	}
	cmd := exec.Command(bin, args...)
	cmd.Stdout, cmd.Stderr = os.Stdout, os.Stderr
	cmd.Env = append(os.Environ(), "VERIF_CHILD=1")
	if err := cmd.Run(); err != nil {
		if ee, ok := err.(*exec.ExitError); ok {
			code := ee.ExitCode()
			if code == 1 || code == 2 {
				return code
			}
			fmt.Printf("VIOLATION property=C14 replay=/verif/replays/C14-crash.json\n  explorer process died with exit code %d\n", code)
			os.WriteFile(filepath.Join(run.VerifDir, "replays", "C14-crash.json"), []byte(fmt.Sprintf("{\"property\":\"C14\",\"signature\":\"crash\",\"detail\":\"explorer died with exit code %d\"}\n", code)), 0o644)
			return 1
		}
		fmt.Fprintf(os.Stderr, "CHECK-ERROR %v\n", err)
		return 2
	}
	return 0
}
