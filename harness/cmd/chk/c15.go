package main

import (
	"fmt"
	"strings"

	"github.com/runreveal/pql/parser"
	"verif/harness/astx"
	"verif/harness/enum"
	"verif/harness/reftok"
	"verif/harness/run"
)

func init() { register("C15", "exploration", c15Main, c15Replay) }

var c15Alpha = []string{";", "'", "\"", "`", "\\", "/", "\n", "a", "0", ".", "e", "x", " ", "!", "=", "é", "\xff", "\r", "\ufeff", "\f"}

// hand-written corpus used for the "semicolon at every byte offset" sweep until
// the grammar corpus is linked in (c15Corpus is extended by gen-based programs).
var c15Base = []string{
	"T | where a == 'x;y' and b != \"p;q\"",
	"`a;b` | project `c``;d`, e = 1.5e3",
	"T // comment ; here\n| count",
	"T | count // trailing ; comment",
	"let x = 0x1f; T | take x",
	"T | where a == 0xFFFFFFFFFFFFFFFF; U | take 0x1000000000000000; V | where b > 18446744073709551615;W",
	"T | take 9223372036854775808;let big = 0x8000000000000000;U | where 1e308 > a;",
	"T | where (a == 1; U | count",
	"T | where a[1; U | where f(b; V",
	"T | join (U; V) on k; W",
	"T | where a =~ 'it\\'s;' | extend z = a[\"k;\"]",
	"T | summarize n = count(), m = max(b) by c, d | sort by n desc nulls first, m asc",
	"T | join kind=leftouter (R | where y > 1.) on $left.k == $right.k, j | top 3 by x",
	"T | render chart with (title=\"a;b\", kind=stacked) | as Q",
	"T | where 'unterminated",
	"T | where `unterminated",
	"T | where a in (1, .5, 2e-3) or not(b) // c\n;;let y = 'z'",
	"T | where a <= 1 and b >= 2 or c < 3 or d > 4 or e !~ 'q' | limit 10",
	"T | extend x = -a * +b / c % d - f(g, h,)",
	"T | where 1e+ ; U | where 0x ; V | where ! ; W",
	"T|where a.b.c==1;U|project`q`",
	"T | where \"a\\\\\";U",
	"T | where msg == \"a\rb;c\" | count",
	"T // progress\r100%; done\n| count",
	"let n = 5;\ufeffT | take n",
	"é;T\xff;'\xff;';",
}

func c15Main(r *run.Runner) {
	r.Rule = "every byte string over a 17-symbol alphabet up to the stated length, and every corpus program with ';', ';;' or '; ' inserted at every byte offset (also padded to 512 / 1024 / 4096 bytes), and the wide families as multi-statement sources, " +
		"is split by parser.SplitStatements and checked against parser.Scan, the reference tokenizer and parser.Parse; " +
		"non-trivial = the source contains at least one semicolon token or at least one other token; distinct by construction"
	r.Assume = []string{"reference tokenizer reftok for the independent semicolon count"}
	n := 5
	if r.Thorough() {
		n = 6
	}
	e := enum.Strings{Alpha: c15Alpha, MaxLen: n, Split: 2}
	r.Extra["bounds"] = map[string]any{"alphabet_size": len(c15Alpha), "max_len": n, "strings": e.Total(), "corpus_programs": len(c15Corpus())}
	r.Sweep("bytes17", e.Items(), func(w *run.Worker, item int64) {
		e.Do(item, func(buf []byte, _ []int) bool {
			c15One(w, string(buf))
			return !w.Stopped()
		})
	})
	if r.Thorough() {
		// one symbol longer on the quote / comment / semicolon core of the alphabet
		core := enum.Strings{Alpha: []string{";", "'", "\"", "`", "\\", "/", "\n", "a", "0", "e", " ", "\r"}, MaxLen: 7, Split: 2}
		r.Sweep("bytes12-core", core.Items(), func(w *run.Worker, item int64) {
			core.Do(item, func(buf []byte, _ []int) bool {
				c15One(w, string(buf))
				return !w.Stopped()
			})
		})
	}
	corpus := c15Corpus()
	wides := wideTexts(r.Thorough())
	r.Sweep("wide-sources", int64(len(wides)), func(w *run.Worker, item int64) {
		a, b := wides[item], wides[(item+7)%int64(len(wides))]
		c15One(w, a)
		c15One(w, a+";"+b)
		c15One(w, "let x = ';'; "+a+"; // ;\n"+b+";")
	})
	// many diagnostics: k statements with e errors each, then well-formed statements; long runs of error tokens over several pieces
	type many struct{ k, e int }
	var manys []many
	for _, k := range []int{1, 2, 3, 5, 9, 10, 11, 33, 100, 101} {
		for _, e := range []int{1, 2, 5, 9, 10, 11, 50, 99, 100, 101, 1000} {
			if k*e <= 12000 {
				manys = append(manys, many{k, e})
			}
		}
	}
	r.Sweep("many-errors", int64(len(manys)), func(w *run.Worker, item int64) {
		m := manys[item]
		for _, bad := range []string{"|frob", "| where", " )", " #", "| take 'x"} {
			var sb strings.Builder
			for i := 0; i < m.k; i++ {
				fmt.Fprintf(&sb, "Events%d%s; ", i, strings.Repeat(bad, m.e))
			}
			c15One(w, sb.String()+"let n = 5; Users | where Age > n | count")
			c15One(w, "let n = 5; "+sb.String()+"Users | count; T")
		}
	})
	// statements in an order a "helpful" parser might change; separators removed (a newline is not a semicolon)
	var reorder []string
	for _, s := range []string{
		"let lo = base + 1; let base = 10; T | where x > lo", "let c = b; let b = a; let a = 1; T | take c", "T | take n; let n = 1", "let n = 1; T | take n; let m = n; U | take m",
		"let a = 1; let a = a + 1; let b = a; let a = 5; T | where x == b", "let z = 1;; let y = z;;; T", "let n = 3\nT | take n", "let n = 3\n`T` | take n", "let n = 3 T | take n",
		"T | take 1\nU | take 2", "T | take 1\n\nlet x = 2", "let a = 1\nlet b = 2\nT", "T\n;U\n;\nV", "let n = f(1)\nT | where n", "let s = 'x'\r\nT | where s == a",
	} {
		reorder = append(reorder, s)
	}
	for _, s := range c15Corpus() {
		if strings.Contains(s, ";") {
			for _, rep := range []string{"\n", " ", "\n\n", " // c\n"} {
				reorder = append(reorder, strings.ReplaceAll(s, ";", rep), strings.Replace(s, ";", rep, 1))
			}
		}
	}
	r.Sweep("statement-order-and-separators", int64(len(reorder)), func(w *run.Worker, item int64) { c15One(w, reorder[item]) })
	// long quoted bodies left open at the end of a line, with quotes and semicolons on later lines
	var lens15 []int
	for n := 0; n <= 70; n++ {
		lens15 = append(lens15, n)
	}
	lens15 = append(lens15, 127, 128, 129, 255, 256, 257, 1000)
	r.Sweep("long-open-quotes", int64(len(lens15)), func(w *run.Worker, item int64) {
		n := lens15[item]
		for _, fill := range []string{"A", " ", "x"} {
			for _, special := range []string{"", "``", "''", "\\", "`", "'", "\"", "``x``", ";"} {
				for _, pos := range []int{0, n / 2, n} {
					body := strings.Repeat(fill, pos) + special + strings.Repeat(fill, n-pos)
					for _, q := range []string{"'", "\"", "`"} {
						c15One(w, "T | where "+q+body+"\n| take `n`; U | where x == 'y' // `\n; V")
						c15One(w, "let a = "+q+body+";\nlet b = "+q+"; c"+q+"; T")
					}
				}
			}
		}
	})
	r.Sweep("semicolon-insertion", int64(len(corpus)), func(w *run.Worker, item int64) {
		p := corpus[item]
		for off := 0; off <= len(p); off++ {
			for _, ins := range []string{";", ";;", "; ", "\n;"} {
				c15One(w, p[:off]+ins+p[off:])
			}
		}
		c15One(w, p)
		// the same program inside a long source (sizes around 512, 1024 and 4096 bytes), padded before and after
		for _, size := range []int{500, 512, 600, 1024, 1100, 4096, 4200} {
			if len(p) >= size {
				continue
			}
			pad := strings.Repeat("x", size-len(p))
			c15One(w, "// "+pad+"\n"+p)
			c15One(w, p+"\n// "+pad)
			c15One(w, p+" | where z == '"+pad+"'; U")
			c15One(w, "\f"+p+"\v;é")
		}
	})
	if r.Thorough() {
		r.Sweep("pairs", int64(len(corpus)*len(corpus)), func(w *run.Worker, item int64) {
			a, b := corpus[item/int64(len(corpus))], corpus[item%int64(len(corpus))]
			c15One(w, a+";"+b)
			c15One(w, a+"\n;\n"+b+";")
		})
	}
	r.Sample("a;'x;y';`b;`//;\n;")
	r.Sample(c15Base[0][:20] + ";" + c15Base[0][20:])
}

var c15CorpusExtra func() []string

func c15Corpus() []string {
	out := append([]string{}, c15Base...)
	if c15CorpusExtra != nil {
		out = append(out, c15CorpusExtra()...)
	}
	return out
}

func c15Replay(w *run.Worker, v *run.Viol) { c15One(w, v.Source) }

func c15One(w *run.Worker, s string) {
	w.Begin("split-vs-scan", s)
	var pieces []string
	var toks []parser.Token
	if !w.Try(s, func() { pieces = parser.SplitStatements(s); toks = parser.Scan(s) }) {
		return
	}
	if len(toks) > 0 {
		w.Nontrivial()
	}
	if got := strings.Join(pieces, ";"); got != s {
		w.Fail("split:join-differs", s, fmt.Sprintf("join(pieces,';') = %q, pieces %q", got, pieces), nil)
		return
	}
	semis := 0
	for _, t := range toks {
		if t.Kind == parser.TokenSemi {
			semis++
		}
	}
	refSemis := 0
	for _, t := range reftok.Scan(s) {
		if t.Kind == reftok.Semi {
			refSemis++
		}
	}
	if len(pieces) != semis+1 || semis != refSemis {
		w.Fail("split:piece-count", s, fmt.Sprintf("%d pieces, %d semicolon tokens by Scan, %d by the reference; pieces %q", len(pieces), semis, refSemis, pieces), nil)
		return
	}
	// tokens of each piece alone = tokens of s inside the piece, shifted
	off := 0
	ti := 0
	type ext struct{ start, end int }
	var exts []ext
	for pi, p := range pieces {
		start, end := off, off+len(p)
		exts = append(exts, ext{start, end})
		var ptoks []parser.Token
		if !w.Try(p, func() { ptoks = parser.Scan(p) }) {
			return
		}
		var inside []parser.Token
		for ti < len(toks) && toks[ti].Span.End <= end && toks[ti].Kind != parser.TokenSemi {
			inside = append(inside, toks[ti])
			ti++
		}
		for _, t := range ptoks {
			if t.Kind == parser.TokenSemi {
				w.Fail("split:piece-has-semicolon", s, fmt.Sprintf("piece %d %q contains a semicolon token", pi, p), nil)
				return
			}
		}
		if len(inside) != len(ptoks) {
			w.Fail("split:piece-tokens-differ", s, fmt.Sprintf("piece %d %q alone has %d tokens, %d in context", pi, p, len(ptoks), len(inside)), nil)
			return
		}
		for k := range inside {
			a, b := inside[k], ptoks[k]
			if a.Kind != b.Kind || a.Span.Start-start != b.Span.Start || a.Span.End-start != b.Span.End || (a.Kind != parser.TokenError && a.Value != b.Value) {
				w.Fail("split:piece-tokens-differ", s, fmt.Sprintf("piece %d %q token %d: in context %v, alone %v", pi, p, k, a, b), nil)
				return
			}
		}
		// skip the semicolon token that ends this piece
		if pi < len(pieces)-1 {
			if ti >= len(toks) || toks[ti].Kind != parser.TokenSemi || toks[ti].Span.Start != end {
				w.Fail("split:cut-not-at-semicolon", s, fmt.Sprintf("piece %d ends at %d but the next token there is not a semicolon", pi, end), nil)
				return
			}
			ti++
		}
		off = end + 1
	}
	// Parse correspondence
	var stmts []parser.Statement
	var err error
	if !w.Try(s, func() { stmts, err = parser.Parse(s) }) {
		return
	}
	if err != nil {
		// even a failing parse reports each statement inside one piece, in order
		last := -1
		hit := map[int]int{}
		for k, st := range stmts {
			// extent of all non-empty spans recorded anywhere in the statement's (partial) tree
			sp := parser.Span{Start: -1, End: -1}
			astx.Spans(st, func(_ string, x parser.Span) {
				if !x.IsValid() || x.End <= x.Start || x.End > len(s) {
					return
				}
				if sp.Start < 0 || x.Start < sp.Start {
					sp.Start = x.Start
				}
				if x.End > sp.End {
					sp.End = x.End
				}
			})
			if sp.Start < 0 {
				continue
			}
			pi := -1
			for i, e := range exts {
				if sp.Start >= e.start && sp.End <= e.end {
					pi = i
				}
			}
			if pi < 0 {
				w.Fail("parse:statement-crosses-semicolon", s, fmt.Sprintf("statement %d of the (failed) parse records token positions spanning %v, which is not inside any piece of SplitStatements %q", k, sp, pieces), nil)
				return
			}
			if pi <= last {
				w.Fail("parse:statement-order", s, fmt.Sprintf("statement %d of the (failed) parse lies in piece %d, not after piece %d", k, pi, last), nil)
				return
			}
			last = pi
			hit[pi] = k
		}
		// errors elsewhere do not remove a well-formed statement: a piece that parses alone is reported, with the same tree
		for pi, p := range pieces {
			var pst []parser.Statement
			var perr error
			if !w.Try(p, func() { pst, perr = parser.Parse(p) }) {
				return
			}
			if perr != nil || len(pst) != 1 {
				continue
			}
			k, ok := hit[pi]
			if !ok {
				w.Fail("parse:good-statement-dropped", s, fmt.Sprintf("piece %d %q parses alone, but the parse of the whole source (which fails elsewhere) reports no statement inside it; %d statements for %d pieces", pi, p, len(stmts), len(pieces)), nil)
				return
			}
			if ok, path := astx.EqualShift(stmts[k], pst[0], exts[pi].start, false); !ok {
				w.Fail("parse:piece-tree-differs", s, fmt.Sprintf("statement %d (source fails elsewhere) vs piece %d %q parsed alone: %s", k, pi, p, path), nil)
				return
			}
		}
		return
	}
	si := 0
	for pi, p := range pieces {
		var ptoks []parser.Token
		var pst []parser.Statement
		var perr error
		if !w.Try(p, func() { ptoks = parser.Scan(p); pst, perr = parser.Parse(p) }) {
			return
		}
		if len(ptoks) == 0 {
			if perr != nil || len(pst) != 0 {
				w.Fail("parse:empty-piece", s, fmt.Sprintf("piece %d %q has no tokens but Parse gives %d statements, err=%v", pi, p, len(pst), perr), nil)
				return
			}
			continue
		}
		if perr != nil || len(pst) != 1 {
			w.Fail("parse:piece-alone-differs", s, fmt.Sprintf("whole source parses, but piece %d %q alone gives %d statements, err=%v", pi, p, len(pst), perr), nil)
			return
		}
		if si >= len(stmts) {
			w.Fail("parse:statement-count", s, fmt.Sprintf("Parse returned %d statements, fewer than non-empty pieces", len(stmts)), nil)
			return
		}
		if ok, path := astx.EqualShift(stmts[si], pst[0], exts[pi].start, false); !ok {
			w.Fail("parse:piece-tree-differs", s, fmt.Sprintf("statement %d vs piece %d %q parsed alone: %s", si, pi, p, path), nil)
			return
		}
		sp := stmts[si].Span()
		if sp.IsValid() && (sp.Start < exts[pi].start || sp.End > exts[pi].end) {
			w.Fail("parse:statement-outside-piece", s, fmt.Sprintf("statement %d span %v outside piece %d extent [%d,%d)", si, sp, pi, exts[pi].start, exts[pi].end), nil)
			return
		}
		si++
	}
	if si != len(stmts) {
		w.Fail("parse:statement-count", s, fmt.Sprintf("Parse returned %d statements, %d non-empty pieces", len(stmts), si), nil)
	}
}
