package main

import (
	"bytes"
	"fmt"
	"os"
	"os/exec"
	"path/filepath"
	"strings"

	"github.com/runreveal/pql"
	"verif/harness/reftok"
	"verif/harness/run"
)

func init() { register("C16", "model_checking", c16Main, c16Replay) }

var c16Lines = []string{
	"let x = 1;",
	"let x = 2;",
	"let y = z;", // rejected: open identifier
	"let x =",
	"3;",
	"T | where x",
	"T | where x;",
	"| count;",
	"T | take x; T | where y;",
	"!;",
	"T | where (;",
	"// c ; not a statement",
	"",
	"U | project `a;b` = 'p;q' ; let",
	"let x = 1; let w = x + 1;",
	"T | take w;",
	"let s = \"nul\x00byte\rmid\x7f\xffend\u00a0\"; T | where a == s;",
	"F | where `dir\\` == x; F | count;",
	"V | where u == \"http://a\"; W | count",
	"let `x` = 5;",   // a let declared with a quoted name, used by its plain name later
	"let x = 4 // c", // a comment between the value and the semicolon on the next line
	";",
}

// cliModel is the reference for the tool: it sees the script as text, splits it
// with the reference tokenizer and calls the library once per statement.
type cliOutcome struct {
	stdout      string
	failed      int  // statements that failed
	emptyStmts  bool // the script contains an empty terminated statement (exit status unspecified)
	trailingLet bool // unterminated let at end of input (exit status unspecified)
}

func cliModel(text string) cliOutcome {
	var out cliOutcome
	toks := reftok.Scan(text)
	var pieces []string
	start := 0
	for _, t := range toks {
		if t.Kind == reftok.Semi {
			pieces = append(pieces, text[start:t.Start])
			start = t.End
		}
	}
	last := text[start:]
	prelude := ""
	var sb strings.Builder
	isLet := func(piece string) bool {
		t := reftok.Scan(piece)
		return len(t) > 0 && t[0].Kind == reftok.Ident && t[0].Value == "let"
	}
	for _, p := range pieces {
		if len(reftok.Scan(p)) == 0 {
			out.emptyStmts = true
			continue
		}
		if isLet(p) {
			if _, err := pql.Compile(prelude + p + ";X"); err != nil {
				out.failed++
			} else {
				prelude += p + ";\n"
			}
			continue
		}
		sql, err := pql.Compile(prelude + p)
		if err != nil {
			out.failed++
			continue
		}
		sb.WriteString(sql + "\n\n")
	}
	if len(reftok.Scan(last)) > 0 {
		if isLet(last) {
			out.trailingLet = true
		} else {
			sql, err := pql.Compile(prelude + last)
			if err != nil {
				out.failed++
			} else {
				sb.WriteString(sql + "\n\n")
			}
		}
	}
	out.stdout = sb.String()
	return out
}

// linesOf splits input the way a line-oriented reader does and re-joins with "\n".
func normalizeLines(input string) string {
	if input == "" {
		return ""
	}
	var sb strings.Builder
	for len(input) > 0 {
		i := strings.IndexByte(input, '\n')
		var line string
		if i < 0 {
			line, input = input, ""
		} else {
			line, input = input[:i], input[i+1:]
		}
		line = strings.TrimSuffix(line, "\r")
		sb.WriteString(line)
		sb.WriteByte('\n')
	}
	return sb.String()
}

type cliRun struct {
	stdout, stderr string
	exit           int
}

type cliEnv struct {
	bin string
	dir string
}

func (e *cliEnv) run(w *run.Worker, stdin string, args ...string) cliRun {
	cmd := exec.Command(e.bin, args...)
	cmd.Stdin = strings.NewReader(stdin)
	var so, se bytes.Buffer
	cmd.Stdout, cmd.Stderr = &so, &se
	cmd.Dir = e.dir
	var err error
	w.Timed(func() { err = cmd.Run() }) // the watchdog reports a tool that does not finish
	r := cliRun{stdout: so.String(), stderr: se.String()}
	if err != nil {
		if ee, ok := err.(*exec.ExitError); ok {
			r.exit = ee.ExitCode()
		} else {
			r.exit = -1
			r.stderr += "\nexec: " + err.Error()
		}
	}
	return r
}

func buildCLI() (string, string, error) {
	scratch := os.Getenv("VERIF_SCRATCH")
	if scratch == "" {
		d, err := os.MkdirTemp("", "verif-cli-")
		if err != nil {
			return "", "", err
		}
		scratch = d
	}
	bin := filepath.Join(scratch, "pql-cli")
	args := []string{"build"}
	if ov := os.Getenv("VERIF_OVERLAY"); ov != "" {
		args = append(args, "-overlay", ov)
	}
	args = append(args, "-o", bin, "./cmd/pql")
	cmd := exec.Command("go", args...)
	cmd.Dir = "/repo"
	if out, err := cmd.CombinedOutput(); err != nil {
		return "", "", fmt.Errorf("go build ./cmd/pql: %v\n%s", err, out)
	}
	return bin, scratch, nil
}

func countPqlLines(stderr string) int {
	n := 0
	for _, l := range strings.Split(stderr, "\n") {
		if strings.HasPrefix(l, "pql: ") {
			n++
		}
	}
	return n
}

// c16Compare checks one run of the tool against the model of the same input text.
func c16Compare(w *run.Worker, input, channel string, got cliRun, outFile *string) {
	m := cliModel(normalizeLines(input))
	stdout := got.stdout
	extra := map[string]any{"channel": channel, "input": input}
	if outFile != nil {
		if got.stdout != "" {
			w.Fail("cli:stdout-not-empty-with-o", input, fmt.Sprintf("with -o the standard output must be empty, got %q", got.stdout), extra)
			return
		}
		stdout = *outFile
	}
	if stdout != m.stdout {
		w.Fail("cli:stdout:"+channel, input, fmt.Sprintf("channel %s: output differs from the library's SQL for each query with accepted lets in scope\nwant %q\ngot  %q\nstderr %q", channel, m.stdout, stdout, got.stderr), extra)
		return
	}
	if m.emptyStmts || m.trailingLet {
		w.Count("exit_status_unspecified", 1)
		return
	}
	if (got.exit != 0) != (m.failed > 0) {
		w.Fail("cli:exit-status:"+channel, input, fmt.Sprintf("channel %s: exit status %d but %d statements failed\nstderr %q", channel, got.exit, m.failed, got.stderr), extra)
		return
	}
	if n := countPqlLines(got.stderr); n < m.failed {
		w.Fail("cli:silent-failure:"+channel, input, fmt.Sprintf("channel %s: %d statements failed but only %d diagnostics on standard error\nstderr %q", channel, m.failed, n, got.stderr), extra)
	}
}

func c16Main(r *run.Runner) {
	r.Rule = "explicit-state exploration of the command-line tool: every history of <= k input lines over a 22-line alphabet (accepted / rejected / redefined lets, statements spread over lines, two statements per line, lexical errors, comments, blank lines, semicolons inside strings and names), with and without a final newline, is fed to the real pql binary built from /repo; " +
		"standard output, exit status and diagnostics are compared with a model that splits the text with the reference tokenizer and calls the library per statement. Channels: stdin for every history; one file, two files split at every line boundary, -o file and CRLF line ends for every history of <= k-1 lines. Also bulk scripts (20-700 statements), long lines (255-65 000 bytes) and every wide family at every size as a session. Faults: a 70 000-byte line at every position, a directory and a missing file as inputs. " +
		"states = distinct histories, transitions = lines fed, traces validated = runs of the real binary compared with the model"
	r.Assume = []string{"the model calls pql.Compile per statement (the library's own correctness is the subject of the other properties)",
		"exit status is not compared for scripts with an empty terminated statement (`;;`) or an unterminated let at end of input: the statement does not say whether those count as failures"}
	bin, scratch, err := buildCLI()
	if err != nil {
		fmt.Fprintf(os.Stderr, "CHECK-ERROR %v\n", err)
		os.Exit(2)
	}
	k := 3
	if r.Thorough() {
		k = 4
	}
	n := len(c16Lines)
	var hist [][]int
	var rec func(cur []int)
	rec = func(cur []int) {
		hist = append(hist, append([]int{}, cur...))
		if len(cur) == k {
			return
		}
		for i := 0; i < n; i++ {
			rec(append(cur, i))
		}
	}
	rec(nil)
	if r.Thorough() {
		// depth 5 on a 9-line sub-alphabet
		sub := []int{0, 1, 2, 3, 4, 5, 7, 8, 11}
		var rec5 func(cur []int)
		rec5 = func(cur []int) {
			if len(cur) == 5 {
				hist = append(hist, append([]int{}, cur...))
				return
			}
			for _, i := range sub {
				rec5(append(cur, i))
			}
		}
		rec5(nil)
	}
	envs := make([]*cliEnv, 64)
	r.Sweep("histories", int64(len(hist)), func(w *run.Worker, item int64) {
		if envs[w.ID] == nil {
			d := filepath.Join(scratch, fmt.Sprintf("w%d", w.ID))
			os.MkdirAll(d, 0o755)
			envs[w.ID] = &cliEnv{bin: bin, dir: d}
		}
		e := envs[w.ID]
		h := hist[item]
		lines := make([]string, len(h))
		for i, li := range h {
			lines[i] = c16Lines[li]
		}
		w.Count("states", 1)
		w.Count("transitions", int64(len(h)))
		for _, finalNL := range []bool{true, false} {
			if len(h) == 0 && !finalNL {
				continue
			}
			input := strings.Join(lines, "\n")
			if finalNL && len(h) > 0 {
				input += "\n"
			}
			w.Begin("cli-vs-model:stdin", input)
			w.Nontrivial()
			c16Compare(w, input, "stdin", e.run(w, input), nil)
			w.Count("traces_validated", 1)
			if len(h) >= k && k > 1 {
				continue
			}
			// other channels
			f1 := filepath.Join(e.dir, "in1.pql")
			os.WriteFile(f1, []byte(input), 0o644)
			w.Begin("cli-vs-model:file", input)
			c16Compare(w, input, "file", e.run(w, "", f1), nil)
			w.Begin("cli-vs-model:dash", input)
			c16Compare(w, input, "dash", e.run(w, input, "-"), nil)
			outPath := filepath.Join(e.dir, "out.sql")
			os.Remove(outPath)
			w.Begin("cli-vs-model:-o", input)
			got := e.run(w, input, "-o", outPath)
			b, _ := os.ReadFile(outPath)
			s := string(b)
			c16Compare(w, input, "-o", got, &s)
			// the output file exists already and is longer than what this run writes: nothing of it may remain
			os.WriteFile(outPath, []byte(strings.Repeat("SELECT 'stale output of an earlier run';\n", 40)), 0o644)
			w.Begin("cli-vs-model:-o-existing", input)
			got = e.run(w, input, "-o", outPath)
			b, _ = os.ReadFile(outPath)
			s = string(b)
			c16Compare(w, input, "-o", got, &s)
			crlf := strings.ReplaceAll(input, "\n", "\r\n")
			w.Begin("cli-vs-model:crlf", crlf)
			c16Compare(w, crlf, "crlf", e.run(w, crlf), nil)
			w.Count("traces_validated", 4)
			// two files split at every line boundary
			for cut := 0; cut <= len(lines); cut++ {
				a := strings.Join(lines[:cut], "\n")
				if cut > 0 {
					a += "\n"
				}
				b := strings.Join(lines[cut:], "\n")
				if finalNL && cut < len(lines) {
					b += "\n"
				}
				f2 := filepath.Join(e.dir, "in2.pql")
				os.WriteFile(f1, []byte(a), 0o644)
				os.WriteFile(f2, []byte(b), 0o644)
				w.Begin("cli-vs-model:two-files", a+b)
				c16Compare(w, a+b, "two-files", e.run(w, "", f1, f2), nil)
				w.Count("traces_validated", 1)
			}
			// a first file without final newline glues its last line to the next file's first line
			if len(lines) >= 2 {
				f2 := filepath.Join(e.dir, "in2.pql")
				a, b := lines[0], strings.Join(lines[1:], "\n")
				os.WriteFile(f1, []byte(a), 0o644)
				os.WriteFile(f2, []byte(b), 0o644)
				w.Begin("cli-vs-model:two-files-glued", a+b)
				c16Compare(w, a+b, "two-files-glued", e.run(w, "", f1, f2), nil)
				w.Count("traces_validated", 1)
			}
			// stdin in the middle of files
			if len(lines) >= 2 {
				a := lines[0] + "\n"
				b := strings.Join(lines[1:], "\n") + "\n"
				os.WriteFile(f1, []byte(a), 0o644)
				w.Begin("cli-vs-model:file-then-stdin", a+b)
				c16Compare(w, a+b, "file-then-stdin", e.run(w, b, f1, "-"), nil)
				w.Count("traces_validated", 1)
			}
		}
	})
	// long (but readable) lines around buffer-size boundaries: the statements must still be compiled
	lineLens := []int{255, 256, 257, 1023, 1024, 1025, 4094, 4095, 4096, 4097, 8191, 8192, 8193, 16384, 32767, 32768, 32769, 65000}
	r.Sweep("long-lines", int64(len(lineLens)), func(w *run.Worker, item int64) {
		if envs[w.ID] == nil {
			d := filepath.Join(scratch, fmt.Sprintf("w%d", w.ID))
			os.MkdirAll(d, 0o755)
			envs[w.ID] = &cliEnv{bin: bin, dir: d}
		}
		e := envs[w.ID]
		n := lineLens[item]
		for _, shape := range []func(pad string) string{
			func(pad string) string { return "T | where a == '" + pad + "';" },
			func(pad string) string { return "let x = 1; T | where b == x // " + pad },
			func(pad string) string { return "T | where a == x" + strings.Repeat(" ", len(pad)) + ";U | count;" },
			// padding (a comment block, blank lines) BEFORE a let / a query inside its statement
			func(pad string) string { return "//" + pad + "\nlet x = 3;\nT | take x;" },
			func(pad string) string {
				return "T | count;" + strings.Repeat(" ", len(pad)) + "\nlet x = 4; U | take x;"
			},
			func(pad string) string {
				return strings.Repeat("// license line\n", len(pad)/16) + strings.Repeat(" ", len(pad)%16) + "let x = 5;\n" + strings.Repeat("\n", len(pad)/16) + "T | take x"
			},
		} {
			base := shape("")
			if n <= len(base) {
				continue
			}
			line := shape(strings.Repeat("y", n-len(base)))
			for _, input := range []string{line + "\n", "let x = 2;\n" + line + "\nT | take x;\n", line + "\n" + line + "\nT | take 1"} {
				w.Begin("cli-vs-model:long-line", fmt.Sprintf("%d-byte line: %.60s...", n, line))
				w.Nontrivial()
				c16Compare(w, input, "stdin", e.run(w, input), nil)
				w.Count("traces_validated", 1)
			}
		}
	})
	// bulk scripts: hundreds of statements spread over one, two or three lines each (kilobytes of input)
	bulkSizes := []int{20, 60, 150, 300, 700}
	r.Sweep("bulk-scripts", int64(len(bulkSizes)*3), func(w *run.Worker, item int64) {
		if envs[w.ID] == nil {
			d := filepath.Join(scratch, fmt.Sprintf("w%d", w.ID))
			os.MkdirAll(d, 0o755)
			envs[w.ID] = &cliEnv{bin: bin, dir: d}
		}
		e := envs[w.ID]
		n := bulkSizes[item/3]
		shape := item % 3
		var sb strings.Builder
		for i := 0; i < n; i++ {
			switch shape {
			case 0:
				fmt.Fprintf(&sb, "Events%d | where code == %d | take 5;\n", i, i)
			case 1:
				fmt.Fprintf(&sb, "Events%d\n| where code == %d | take 5;\n", i, i)
			default:
				fmt.Fprintf(&sb, "let k%d = %d; // binding %d\nEvents%d | where code == k%d\n  | project code, msg%d = strcat('m', \"%d\");\n", i, i, i, i, i, i, i)
			}
		}
		input := sb.String()
		w.Begin("cli-vs-model:bulk", fmt.Sprintf("%d statements, shape %d, %d bytes", n, shape, len(input)))
		w.Nontrivial()
		c16Compare(w, input, "stdin", e.run(w, input), nil)
		f1 := filepath.Join(e.dir, "bulk.pql")
		os.WriteFile(f1, []byte(input), 0o644)
		c16Compare(w, input, "file", e.run(w, "", f1), nil)
		w.Count("traces_validated", 2)
	})
	// wide statements: each wide family at each size as a session (terminated / unterminated / followed by a use of its lets)
	wides := wideTexts(r.Thorough())
	r.Sweep("wide-statements", int64(len(wides)), func(w *run.Worker, item int64) {
		if envs[w.ID] == nil {
			d := filepath.Join(scratch, fmt.Sprintf("w%d", w.ID))
			os.MkdirAll(d, 0o755)
			envs[w.ID] = &cliEnv{bin: bin, dir: d}
		}
		e := envs[w.ID]
		src := wides[item]
		multi := strings.ReplaceAll(src, " | ", "\n| ")
		for _, input := range []string{src + ";\n", multi, src + ";\n" + multi + ";\nT | count"} {
			w.Begin("cli-vs-model:wide", input)
			w.Nontrivial()
			c16Compare(w, input, "stdin", e.run(w, input), nil)
			w.Count("traces_validated", 1)
		}
	})
	// faults
	faultHist := [][]int{}
	for _, h := range hist {
		if len(h) <= 2 {
			faultHist = append(faultHist, h)
		}
	}
	r.Sweep("read-faults", int64(len(faultHist)), func(w *run.Worker, item int64) {
		if envs[w.ID] == nil {
			d := filepath.Join(scratch, fmt.Sprintf("w%d", w.ID))
			os.MkdirAll(d, 0o755)
			envs[w.ID] = &cliEnv{bin: bin, dir: d}
		}
		e := envs[w.ID]
		h := faultHist[item]
		lines := make([]string, len(h))
		for i, li := range h {
			lines[i] = c16Lines[li]
		}
		long := "T | where a == '" + strings.Repeat("x", 70000) + "';"
		for pos := 0; pos <= len(lines); pos++ {
			before := strings.Join(lines[:pos], "\n")
			if pos > 0 {
				before += "\n"
			}
			after := strings.Join(lines[pos:], "\n")
			input := before + long + "\n" + after + "\nT | count;\n"
			w.Begin("cli-fault:long-line", fmt.Sprintf("%s<70000-byte line>\\n%s\\nT | count;\\n", before, after))
			w.Nontrivial()
			got := e.run(w, input)
			w.Count("traces_validated", 1)
			c16Fault(w, before, got, "long-line", fmt.Sprintf("%q + 70000-byte line + %q", before, after))
		}
		// directory / missing file after a first good file
		first := strings.Join(lines, "\n") + "\n"
		f1 := filepath.Join(e.dir, "in1.pql")
		os.WriteFile(f1, []byte(first), 0o644)
		dir := filepath.Join(e.dir, "adir")
		os.MkdirAll(dir, 0o755)
		w.Begin("cli-fault:directory", first)
		c16Fault(w, first, e.run(w, "", f1, dir), "directory-input", first+" then a directory")
		// an unreadable input that is not the last one
		f2 := filepath.Join(e.dir, "in2.pql")
		os.WriteFile(f2, []byte("T | count;\n"), 0o644)
		w.Begin("cli-fault:directory-first", first)
		c16FaultLayout(w, "", e.run(w, "", dir, f1), "directory-input", "a directory, then "+first, "first:"+first)
		w.Begin("cli-fault:directory-middle", first)
		c16FaultLayout(w, first, e.run(w, "", f1, dir, f2), "directory-input", first+" then a directory, then another file", "middle")
		w.Count("traces_validated", 2)
		w.Begin("cli-fault:directory-only", "")
		c16Fault(w, "", e.run(w, "", dir), "directory-input", "a directory as the only input")
		w.Begin("cli-fault:missing-file", first)
		got := e.run(w, "", f1, filepath.Join(e.dir, "does-not-exist.pql"))
		if got.exit == 0 || got.stdout != "" {
			w.Fail("cli:fault:missing-file", first, fmt.Sprintf("missing input file: exit status %d, stdout %q", got.exit, got.stdout), nil)
		}
		w.Count("traces_validated", 3)
	})
	r.Extra["bounds"] = map[string]any{"line_alphabet": c16Lines, "max_lines": k, "histories": len(hist)}
	r.Sample([]string{c16Lines[0], c16Lines[5]})
	r.Sample([]string{c16Lines[3], c16Lines[4], c16Lines[8]})
	r.MC = true
}

// c16Fault: when input cannot be read completely the exit status is non-zero, a
// diagnostic is printed, and everything terminated before the fault is still compiled.
func c16Fault(w *run.Worker, before string, got cliRun, kind, desc string) {
	c16FaultLayout(w, before, got, kind, desc, "")
}

func c16FaultLayout(w *run.Worker, before string, got cliRun, kind, desc, layout string) {
	m := cliModel(normalizeLines(before))
	// only terminated statements are certain to have been processed
	mt := cliModel(normalizeLines(terminatedPrefix(before)))
	if got.exit == 0 {
		w.Fail("cli:fault:"+kind+":exit-zero", before, fmt.Sprintf("%s: input could not be read completely but the exit status is 0\nstdout %q\nstderr %q", desc, got.stdout, got.stderr), map[string]any{"fault": kind, "layout": layout})
		return
	}
	if strings.TrimSpace(got.stderr) == "" {
		w.Fail("cli:fault:"+kind+":silent", before, fmt.Sprintf("%s: no diagnostic on standard error", desc), map[string]any{"fault": kind, "layout": layout})
		return
	}
	if got.stdout != m.stdout && got.stdout != mt.stdout {
		w.Fail("cli:fault:"+kind+":stdout", before, fmt.Sprintf("%s: output for the statements before the fault differs\nwant %q (or %q)\ngot  %q", desc, mt.stdout, m.stdout, got.stdout), map[string]any{"fault": kind, "layout": layout})
	}
}

// terminatedPrefix cuts the text after its last semicolon token.
func terminatedPrefix(text string) string {
	end := 0
	for _, t := range reftok.Scan(text) {
		if t.Kind == reftok.Semi {
			end = t.End
		}
	}
	return text[:end]
}

func c16Replay(w *run.Worker, v *run.Viol) {
	bin, scratch, err := buildCLI()
	if err != nil {
		w.Fail("build", v.Source, err.Error(), nil)
		return
	}
	e := &cliEnv{bin: bin, dir: scratch}
	input, _ := v.Extra["input"].(string)
	ch, _ := v.Extra["channel"].(string)
	if fk, ok := v.Extra["fault"].(string); ok {
		switch fk {
		case "long-line":
			long := "T | where a == '" + strings.Repeat("x", 70000) + "';"
			c16Fault(w, v.Source, e.run(w, v.Source+long+"\nT | count;\n"), fk, "replay")
		default:
			dir := filepath.Join(scratch, "adir")
			os.MkdirAll(dir, 0o755)
			f1 := filepath.Join(scratch, "in1.pql")
			f2 := filepath.Join(scratch, "in2.pql")
			os.WriteFile(f2, []byte("T | count;\n"), 0o644)
			layout, _ := v.Extra["layout"].(string)
			switch {
			case strings.HasPrefix(layout, "first:"):
				os.WriteFile(f1, []byte(strings.TrimPrefix(layout, "first:")), 0o644)
				c16FaultLayout(w, "", e.run(w, "", dir, f1), fk, "replay", layout)
			case layout == "middle":
				os.WriteFile(f1, []byte(v.Source), 0o644)
				c16FaultLayout(w, v.Source, e.run(w, "", f1, dir, f2), fk, "replay", layout)
			default:
				os.WriteFile(f1, []byte(v.Source), 0o644)
				c16Fault(w, v.Source, e.run(w, "", f1, dir), fk, "replay")
			}
		}
		return
	}
	switch ch {
	case "file", "two-files", "two-files-glued", "file-then-stdin":
		f1 := filepath.Join(scratch, "in1.pql")
		os.WriteFile(f1, []byte(input), 0o644)
		c16Compare(w, input, ch, e.run(w, "", f1), nil)
	case "-o":
		outPath := filepath.Join(scratch, "out.sql")
		os.WriteFile(outPath, []byte(strings.Repeat("SELECT 'stale output of an earlier run';\n", 40)), 0o644)
		got := e.run(w, input, "-o", outPath)
		b, _ := os.ReadFile(outPath)
		s := string(b)
		c16Compare(w, input, ch, got, &s)
	default:
		c16Compare(w, input, ch, e.run(w, input), nil)
	}
}
