// Command chk runs the bounded-exhaustive checks of /verif against the pql tree in /repo.
//
//	chk <ID> quick|thorough
//	chk <ID> --replay <file>
package main

import (
	"fmt"
	"os"
	"os/exec"
	"path/filepath"
	"strings"
	"time"

	"verif/harness/run"
)

type check struct {
	level  string
	main   func(r *run.Runner)
	replay func(w *run.Worker, v *run.Viol)
	// external checks build and run their own driver process (C14)
	external func(args []string) int
}

var checks = map[string]*check{}

func register(id, level string, main func(r *run.Runner), replay func(w *run.Worker, v *run.Viol)) {
	checks[id] = &check{level: level, main: main, replay: replay}
}

func main() {
	if len(os.Args) < 3 {
		fmt.Fprintln(os.Stderr, "usage: chk <ID> quick|thorough | chk <ID> --replay <file>")
		os.Exit(2)
	}
	id := os.Args[1]
	c := checks[id]
	if c == nil {
		fmt.Fprintf(os.Stderr, "CHECK-ERROR unknown property %s\n", id)
		os.Exit(2)
	}
	if c.external != nil {
		os.MkdirAll(filepath.Join(run.VerifDir, "replays"), 0o755)
		os.Exit(c.external(os.Args[2:]))
	}
	if os.Args[2] == "--replay" {
		if len(os.Args) < 4 {
			os.Exit(2)
		}
		v, err := run.LoadViol(os.Args[3])
		if err != nil {
			fmt.Fprintf(os.Stderr, "CHECK-ERROR %v\n", err)
			os.Exit(2)
		}
		got := run.Probe(id, func(w *run.Worker) { run.ReplayWithHistory(c.replay, w, v) })
		fmt.Printf("replay of %s (check=%s sig=%s)\nsource=%q\n", os.Args[3], v.Check, v.Sig, v.Source)
		hit := false
		for _, g := range got {
			fmt.Printf("reported: sig=%s\n  %s\n", g.Sig, strings.ReplaceAll(g.Detail, "\n", "\n  "))
			if g.Sig == v.Sig && (len(v.History) == 0 || g.Source == v.Source) {
				hit = true
			}
		}
		if hit {
			fmt.Printf("VIOLATION property=%s replay=%s\n", id, os.Args[3])
			os.Exit(1)
		}
		fmt.Println("not reproduced on this tree")
		os.Exit(0)
	}
	tier := os.Args[2]
	if tier != "quick" && tier != "thorough" {
		fmt.Fprintln(os.Stderr, "tier must be quick or thorough")
		os.Exit(2)
	}
	if os.Getenv("VERIF_CHILD") == "" {
		os.Exit(parent(id, tier))
	}
	r := run.New(id, tier, c.level)
	if c.replay != nil {
		r.ReplayFn = run.ReplayBy(id, c.replay)
	}
	c.main(r)
	os.Exit(r.Finish())
}

// parent runs the check in a child process so that a fatal runtime error
// (stack exhaustion, out of memory, concurrent map write) is attributed to the
// input that caused it instead of killing the check silently.
func parent(id, tier string) int {
	dir, err := os.MkdirTemp("", "chk-slots-")
	if err != nil {
		fmt.Fprintf(os.Stderr, "CHECK-ERROR %v\n", err)
		return 2
	}
	defer os.RemoveAll(dir)
	slots := filepath.Join(dir, "slots.bin")
	cmd := exec.Command(os.Args[0], id, tier)
	cmd.Env = append(os.Environ(), "VERIF_CHILD=1", "VERIF_SLOTS="+slots)
	cmd.Stdout = os.Stdout
	var errBuf tailBuffer
	cmd.Stderr = &errBuf
	start := time.Now()
	err = cmd.Run()
	os.Stderr.Write(errBuf.Bytes())
	code := 0
	if err != nil {
		if ee, ok := err.(*exec.ExitError); ok {
			code = ee.ExitCode()
		} else {
			fmt.Fprintf(os.Stderr, "CHECK-ERROR %v\n", err)
			return 2
		}
	}
	if code == 0 || code == 1 || code == 2 {
		return code
	}
	// abnormal death: attribute to the cases that were running
	cases := run.ReadSlots(slots)
	tail := errBuf.String()
	if len(tail) > 4000 {
		tail = tail[:4000]
	}
	v := run.Viol{Property: id, Check: "worker-death", Sig: "crash",
		Detail: fmt.Sprintf("worker process died with exit code %d after %.1fs; cases in flight: %q\nstderr:\n%s", code, time.Since(start).Seconds(), cases, tail)}
	if len(cases) > 0 {
		v.Source = cases[0]
		v.Extra = map[string]any{"in_flight": cases}
	}
	path := run.WriteReplay(id, tier, 99, v)
	fmt.Printf("VIOLATION property=%s replay=%s\n  worker died (exit %d); in flight: %q\n", id, path, code, cases)
	return 1
}

type tailBuffer struct{ b []byte }

func (t *tailBuffer) Write(p []byte) (int, error) {
	t.b = append(t.b, p...)
	if len(t.b) > 1<<20 {
		t.b = t.b[len(t.b)-(1<<19):]
	}
	return len(p), nil
}
func (t *tailBuffer) Bytes() []byte  { return t.b }
func (t *tailBuffer) String() string { return string(t.b) }
