package main

import (
	"fmt"

	"verif/harness/gen"
)

// scaleThorough adds larger sizes (set by the thorough tier).
var scaleThorough bool

var scaleSizes = []int{2, 7, 8, 9, 10, 11, 15, 16, 17, 31, 32, 33, 64, 100, 127, 128, 129, 199, 200, 201, 255, 256, 257, 300}

// scalePrograms returns large programs of the grammar: many sibling groups at one
// level, long pipelines, and deep nesting, for every size in scaleSizes (nesting up to 64).
func scalePrograms() []*gen.Program {
	var out []*gen.Program
	sizes := scaleSizes
	if scaleThorough {
		sizes = append(append([]int{}, scaleSizes...), 511, 512, 513, 1000, 1024)
	}
	a, one := gen.Col("a"), gen.NumLit("1", "1")
	where := func(e gen.Expr) *gen.Program {
		return gen.Single(&gen.Pipeline{Source: gen.Ident{Name: "T"}, Ops: []gen.Op{&gen.Where{Kw: "where", Pred: e}}})
	}
	chain := func(op string, n int, item func(i int) gen.Expr) gen.Expr {
		var x gen.Expr = item(0)
		for i := 1; i < n; i++ {
			x = &gen.Binary{Op: op, X: x, Y: item(i)}
		}
		return x
	}
	for _, n := range sizes {
		// dense runs of one-letter operands (most nodes per byte) and of sort terms
		letters := func(i int) gen.Expr { return gen.Col(string(rune('a' + i%26))) }
		var terms []gen.SortTerm
		for i := 0; i < n && i < 64; i++ {
			terms = append(terms, gen.SortTerm{X: letters(i)})
		}
		out = append(out,
			where(chain("+", n, letters)),
			where(chain("or", n, letters)),
			gen.Single(&gen.Pipeline{Source: gen.Ident{Name: "T"}, Ops: []gen.Op{&gen.Sort{Kw: "sort", Terms: terms}}}),
		)
		// long lists whose last (or a middle) element is not a literal; calls with a trailing comma
		var vals, vals2, args []gen.Expr
		for i := 0; i < n; i++ {
			vals = append(vals, gen.NumLit(fmt.Sprint(i+1), fmt.Sprint(i+1)))
			vals2 = append(vals2, gen.StrLit(fmt.Sprint("s", i)))
			args = append(args, letters(i))
		}
		vals = append(vals, &gen.Binary{Op: "+", X: gen.NumLit("8", "8"), Y: gen.NumLit("9", "9")})
		if n >= 3 {
			vals2[n-2] = gen.Col("y")
		}
		out = append(out,
			where(&gen.In{X: a, Vals: vals}),
			where(&gen.In{X: a, Vals: vals2}),
			where(&gen.Binary{Op: ">", X: &gen.Call{Func: "strcat", Args: args, TrailingComma: true}, Y: one}),
		)
		// sibling groups
		out = append(out,
			where(chain("and", n, func(int) gen.Expr { return &gen.Paren{X: a} })),
			where(chain("+", n, func(int) gen.Expr { return &gen.Call{Func: "f", Args: []gen.Expr{a}} })),
			where(chain("or", n, func(int) gen.Expr { return &gen.In{X: a, Vals: []gen.Expr{one}} })),
			where(chain("*", n, func(int) gen.Expr { return &gen.Index{X: gen.Col("m"), I: one} })),
			where(&gen.Call{Func: "g", Args: func() []gen.Expr {
				var xs []gen.Expr
				for i := 0; i < n; i++ {
					xs = append(xs, &gen.Paren{X: a})
				}
				return xs
			}()}),
		)
		// long pipelines
		var ops, ops2 []gen.Op
		for i := 0; i < n; i++ {
			ops = append(ops, &gen.Where{Kw: "where", Pred: &gen.Paren{X: a}})
			switch i % 4 {
			case 0:
				ops2 = append(ops2, &gen.Extend{Cols: []gen.Column{{Name: &gen.Ident{Name: "x"}, X: &gen.Call{Func: "f", Args: []gen.Expr{a}}}}})
			case 1:
				ops2 = append(ops2, &gen.Sort{Kw: "sort", Terms: []gen.SortTerm{{X: &gen.Paren{X: a}}}})
			case 2:
				ops2 = append(ops2, &gen.Take{Kw: "take", N: &gen.Paren{X: one}})
			default:
				ops2 = append(ops2, &gen.Project{Cols: []gen.Column{{Name: &gen.Ident{Name: "a"}}, {Name: &gen.Ident{Name: "m"}, X: &gen.Index{X: gen.Col("m"), I: one}}}})
			}
		}
		out = append(out,
			gen.Single(&gen.Pipeline{Source: gen.Ident{Name: "T"}, Ops: ops}),
			gen.Single(&gen.Pipeline{Source: gen.Ident{Name: "T"}, Ops: ops2}),
		)
		// many joins in sequence
		if n <= 64 {
			var js []gen.Op
			for i := 0; i < n; i++ {
				js = append(js, &gen.Join{Kind: "inner", Right: &gen.Pipeline{Source: gen.Ident{Name: "R"}, Ops: []gen.Op{&gen.Where{Kw: "where", Pred: &gen.Paren{X: a}}}}, On: []gen.Expr{gen.Col("k")}})
			}
			out = append(out, gen.Single(&gen.Pipeline{Source: gen.Ident{Name: "T"}, Ops: js}))
		}
		// deep nesting
		if n <= 64 {
			var p, c, ix, mixed gen.Expr = a, a, a, a
			for i := 0; i < n; i++ {
				p = &gen.Paren{X: p}
				c = &gen.Call{Func: "f", Args: []gen.Expr{c}}
				ix = &gen.Index{X: gen.Col("m"), I: ix}
				switch i % 3 {
				case 0:
					mixed = &gen.Paren{X: mixed}
				case 1:
					mixed = &gen.Call{Func: "f", Args: []gen.Expr{one, mixed}}
				default:
					mixed = &gen.In{X: one, Vals: []gen.Expr{mixed}}
				}
			}
			out = append(out, where(p), where(c), where(ix), where(mixed),
				gen.Single(&gen.Pipeline{Source: gen.Ident{Name: "T"}, Ops: []gen.Op{&gen.Take{Kw: "take", N: func() gen.Expr {
					var x gen.Expr = gen.NumLit("5", "5")
					for i := 0; i < n; i++ {
						x = &gen.Paren{X: x}
					}
					return x
				}()}}}))
			// nested joins
			right := &gen.Pipeline{Source: gen.Ident{Name: "R"}}
			for i := 0; i < n && i < 32; i++ {
				right = &gen.Pipeline{Source: gen.Ident{Name: "R"}, Ops: []gen.Op{&gen.Where{Kw: "where", Pred: &gen.Paren{X: a}}, &gen.Join{Right: right, On: []gen.Expr{gen.Col("k")}}}}
			}
			out = append(out, gen.Single(right))
		}
	}
	out = append(out, widePrograms(scaleThorough)...)
	return out
}
