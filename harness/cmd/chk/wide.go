package main

import (
	"fmt"
	"strings"

	"verif/harness/gen"
	"verif/harness/rel"
	"verif/harness/run"
	"verif/harness/sem"
)

// Wide families: the same few columns and operators repeated k times, for every k of
// wideSizes. They complement the tree / sequence enumerations (all shapes, small sizes)
// with one shape per construct at every size, so that a rule that only applies from
// some number of operands, columns, terms or operators on is still evaluated.

func wideSizes(thorough bool) []int {
	s := []int{1, 2, 3, 4, 5, 6, 7, 8, 9, 10, 11, 12, 13, 15, 16, 17, 20, 24, 31, 32, 33, 48, 63, 64, 65, 100, 101, 129}
	if thorough {
		s = append(s, 127, 128, 200, 255, 256, 257, 511, 512, 513)
	}
	return s
}

func cycle(items []string, k int, sep string) string {
	var out []string
	for i := 0; i < k; i++ {
		out = append(out, strings.ReplaceAll(items[i%len(items)], "#", fmt.Sprint(i)))
	}
	return strings.Join(out, sep)
}

type wideExpr struct {
	name string
	text func(k int) string
	max  int
	// hot: k operands of which only operand j can decide the result
	hot func(k, j int) string
}

func oneHot(k, j int, cold func(i int) string, hot string, sep string) string {
	var out []string
	for i := 0; i < k; i++ {
		if i == j {
			out = append(out, hot)
		} else {
			out = append(out, cold(i))
		}
	}
	return strings.Join(out, sep)
}

// hotPositions: every position for small k, the ends and the middle otherwise.
func hotPositions(k int) []int {
	if k <= 17 {
		var all []int
		for j := 0; j < k; j++ {
			all = append(all, j)
		}
		return all
	}
	return []int{0, 1, 7, 8, 9, k / 2, k - 3, k - 2, k - 1}
}

func wideExprFamilies() []wideExpr {
	var fams []wideExpr
	for _, op := range gen.BinaryOps {
		op := op
		if op == "=~" || op == "!~" {
			fams = append(fams, wideExpr{"chain" + op, func(k int) string { return cycle([]string{"sa", "sb", "'a'"}, k+1, " "+op+" ") }, 9, nil})
			continue
		}
		fams = append(fams,
			wideExpr{"chain" + op, func(k int) string { return cycle([]string{"na", "nb", "nc", "#"}, k+1, " "+op+" ") }, 0, nil},
			wideExpr{"right-nested" + op, func(k int) string {
				return cycle([]string{"na " + op + " (", "nb " + op + " (", "2 " + op + " ("}, k, "") + "nc" + strings.Repeat(")", k)
			}, 65, nil},
		)
	}
	fams = append(fams,
		wideExpr{"mixed-arith", func(k int) string {
			ops := []string{"+", "*", "-", "/", "%"}
			s := "na"
			for i := 0; i < k; i++ {
				s += " " + ops[i%len(ops)] + " " + []string{"nb", "nc", "2", "na"}[i%4]
			}
			return s
		}, 0, nil},
		wideExpr{"mixed-additive", func(k int) string {
			s := "na"
			for i := 0; i < k; i++ {
				s += " " + []string{"-", "+", "-", "-", "+"}[i%5] + " " + strings.ReplaceAll([]string{"nb", "#", "nc", "na"}[i%4], "#", fmt.Sprint(i))
			}
			return s
		}, 0, nil},
		wideExpr{"mixed-multiplicative", func(k int) string {
			s := "na"
			for i := 0; i < k; i++ {
				s += " " + []string{"*", "/", "*", "%", "/"}[i%5] + " " + []string{"nb", "2", "nc", "3"}[i%4]
			}
			return s
		}, 0, nil},
		wideExpr{"mixed-comparisons-in-and", func(k int) string {
			return cycle([]string{"na < #", "nb >= nc", "na != nb", "nc == #", "nb <= na", "na > nc"}, k, " and ")
		}, 0, nil},
		wideExpr{"mixed-bool", func(k int) string {
			s := "na > 1"
			for i := 0; i < k; i++ {
				s += []string{" and ", " or "}[i%2] + strings.ReplaceAll([]string{"nb == nc", "na != #", "nc < nb", "isnull(na)", "not(nb >= 2)"}[i%5], "#", fmt.Sprint(i))
			}
			return s
		}, 0, nil},
		wideExpr{"and-of-ors", func(k int) string { return cycle([]string{"(na > # or nb == 1)", "(nc <= # or na == nb)"}, k, " and ") }, 0, nil},
		wideExpr{"in-list", func(k int) string { return "na in (" + cycle([]string{"nb", "#", "nc", "2", "nb + 1"}, k, ", ") + ")" }, 0, nil},
		wideExpr{"in-list-literals-then-name", func(k int) string { return "na in (" + cycle([]string{"#"}, k, ", ") + ", nb)" }, 0, nil},
		wideExpr{name: "in-list-one-hot", hot: func(k, j int) string {
			return "na in (" + oneHot(k, j, func(i int) string { return fmt.Sprint(100 + i) }, "nb", ", ") + ")"
		}},
		wideExpr{name: "in-list-one-hot-expr", hot: func(k, j int) string {
			return "na + 100 in (" + oneHot(k, j, func(i int) string { return fmt.Sprint(200 + i) }, "nb + 100", ", ") + ")"
		}},
		wideExpr{name: "in-list-strings-one-hot", hot: func(k, j int) string {
			return "sa in (" + oneHot(k, j, func(i int) string { return fmt.Sprintf("'v%d'", i) }, "sb", ", ") + ")"
		}},
		wideExpr{name: "or-one-hot", hot: func(k, j int) string {
			return oneHot(k, j, func(i int) string { return fmt.Sprintf("na == %d", 100+i) }, "na > nb", " or ")
		}},
		wideExpr{name: "and-one-hot", hot: func(k, j int) string {
			return oneHot(k, j, func(i int) string { return fmt.Sprintf("nb != %d", 100+i) }, "na > nb", " and ")
		}},
		wideExpr{name: "sum-one-hot", hot: func(k, j int) string {
			return oneHot(k, j, func(i int) string { return fmt.Sprint(1 << (i % 20)) }, "na", " + ")
		}},
		wideExpr{name: "strcat-one-hot", hot: func(k, j int) string {
			return "strcat(" + oneHot(k, j, func(i int) string { return fmt.Sprintf("'<%d>'", i) }, "sa", ", ") + ")"
		}},
		wideExpr{"in-list-strings", func(k int) string { return "sa in (" + cycle([]string{"'a'", "'x#'", "sb"}, k, ", ") + ")" }, 0, nil},
		wideExpr{"strcat", func(k int) string { return "strcat(" + cycle([]string{"sa", "'x#'", "sb", "'#'"}, k, ", ") + ")" }, 0, nil},
		wideExpr{"unknown-call", func(k int) string { return "f(" + cycle([]string{"na", "#", "nb + 1"}, k, ", ") + ")" }, 0, nil},
		wideExpr{"iff-chain-else", func(k int) string {
			return cycle([]string{"iff(na > #, nb, ", "iff(nb == nc, #, "}, k, "") + "nc" + strings.Repeat(")", k)
		}, 65, nil},
		wideExpr{"iff-chain-then", func(k int) string {
			return strings.Repeat("iff(na > 1, ", k) + "nb" + cycle([]string{", nc)", ", #)"}, k, "")
		}, 65, nil},
		wideExpr{"iff-chain-cond", func(k int) string {
			return strings.Repeat("iff(", k) + "na > 1" + cycle([]string{", nb > 1, nc > #)", ", na == nb, isnull(nc))"}, k, "")
		}, 65, nil},
		wideExpr{"signs", func(k int) string {
			s := cycle([]string{"-(", "+(", "-(", "-(nb * ", "+(nc - "}, k, " ") + " na"
			return s + strings.Repeat(")", strings.Count(s, "("))
		}, 33, nil},
		wideExpr{"not-chain", func(k int) string { return strings.Repeat("not(", k) + "na > nb" + strings.Repeat(")", k) }, 65, nil},
		wideExpr{"index-chain", func(k int) string {
			s := "ra[na]"
			for i := 1; i < k; i++ {
				s = "ra[" + s + "]"
			}
			return s
		}, 33, nil},
		wideExpr{"call-nest", func(k int) string {
			return cycle([]string{"tolower(", "toupper(", "strcat('#', "}, k, "") + "sa" + strings.Repeat(")", k)
		}, 65, nil},
		wideExpr{"sum-of-products", func(k int) string { return cycle([]string{"na * nb", "nc * #", "(na + nb) * nc"}, k, " + ") }, 0, nil},
	)
	return fams
}

// c01Wide places every wide expression at every open expression position.
func c01Wide(r *run.Runner, getState func(w *run.Worker) *c01State) {
	type item struct {
		fam  wideExpr
		k, j int
	}
	var items []item
	for _, f := range wideExprFamilies() {
		for _, k := range wideSizes(r.Thorough()) {
			if f.max > 0 && k > f.max {
				continue
			}
			if f.hot != nil {
				for _, j := range hotPositions(k) {
					items = append(items, item{f, k, j})
				}
				continue
			}
			items = append(items, item{f, k, -1})
		}
	}
	all := []typedLeaf{{"na", tNum}, {"nb", tNum}, {"nc", tNum}, {"sa", tStr}, {"sb", tStr}, {"ra", tArr}}
	r.Sweep("wide-expressions", int64(len(items)), func(w *run.Worker, idx int64) {
		it := items[idx]
		var text string
		if it.fam.hot != nil {
			text = it.fam.hot(it.k, it.j)
		} else {
			text = it.fam.text(it.k)
		}
		tree, err := gen.ReadExpr(text)
		if err != nil {
			w.HarnessError(fmt.Sprintf("wide family %s/%d does not read: %v\n%s", it.fam.name, it.k, err, text))
			return
		}
		var leaves []typedLeaf
		lex := " " + strings.NewReplacer("(", " ", ")", " ", ",", " ", "[", " ", "]", " ").Replace(text) + " "
		for _, l := range all {
			if strings.Contains(lex, " "+l.name+" ") {
				leaves = append(leaves, l)
			}
		}
		st := getState(w)
		for _, m := range []gen.ParenMode{gen.Minimal, gen.Redundant} {
			src := gen.ExprText(gen.WrapRoot(tree, m))
			for pi := range c01Positions {
				p := &c01Positions[pi]
				if p.closed || p.join {
					continue
				}
				if m == gen.Redundant && p.name != "where" && p.name != "extend-named" {
					continue
				}
				c01Check(w, st, c01Case{src: p.build(src), pos: p, tree: tree, leaves: leaves})
			}
		}
	})
}

// hotOf picks an inner position that moves with k (so that over all sizes every small position is hot once).
func hotOf(k int) int { return (k * 2 / 3) % k }

type wideProg struct {
	name string
	text func(k int) string
	max  int
}

func wideProgFamilies() []wideProg {
	aggs := []string{"count()", "max(a)", "min(b)", "sum(a)", "countif(a > 1)", "max(a + b)", "sum(b)"}
	return []wideProg{
		{"project-k", func(k int) string {
			return "T | project " + cycle([]string{"c# = a", "c# = b", "c# = a + #", "c# = b * 2"}, k, ", ") + fmt.Sprintf(" | sort by c%d, c0 | take 2", k-1)
		}, 0},
		{"extend-k", func(k int) string {
			return "T | extend " + cycle([]string{"e# = a + #", "e# = b", "e# = a * b"}, k, ", ") + fmt.Sprintf(" | where e%d > 1", k-1)
		}, 0},
		{"extend-chain", func(k int) string {
			s := "T | extend e0 = a + 1"
			for i := 1; i < k; i++ {
				s += fmt.Sprintf(" | extend e%d = e%d + %d", i, i-1, i%3)
			}
			return s + fmt.Sprintf(" | project e%d, b | sort by b", k-1)
		}, 65},
		{"project-chain", func(k int) string {
			s := "T"
			prev := "a"
			for i := 0; i < k; i++ {
				s += fmt.Sprintf(" | project p%d = %s, b", i, prev)
				prev = fmt.Sprintf("p%d", i)
			}
			return s + " | where " + prev + " > 1"
		}, 65},
		{"sort-k-terms", func(k int) string {
			return "T | sort by " + cycle([]string{"a desc", "b asc", "a + b", "b desc nulls first", "a asc nulls last", "a * #"}, k, ", ") + " | take 2"
		}, 0},
		{"sort-then-sort", func(k int) string {
			return "T | " + cycle([]string{"sort by a", "sort by b desc", "order by a desc, b", "sort by b asc"}, k, " | ") + " | take 3"
		}, 65},
		{"summarize-k-aggregates", func(k int) string {
			var cols []string
			for i := 0; i < k; i++ {
				cols = append(cols, fmt.Sprintf("g%d = %s", i, aggs[i%len(aggs)]))
			}
			return "T | summarize " + strings.Join(cols, ", ") + " by a | sort by a"
		}, 0},
		{"summarize-k-keys", func(k int) string {
			return "T | summarize n = count() by " + cycle([]string{"k# = a", "k# = b", "k# = a + #"}, k, ", ") + fmt.Sprintf(" | sort by k0, k%d", k-1)
		}, 0},
		{"summarize-chain", func(k int) string {
			s := "T | summarize n0 = count() by a"
			for i := 1; i < k; i++ {
				s += fmt.Sprintf(" | summarize n%d = max(n%d) by a", i, i-1)
			}
			return s + " | sort by a"
		}, 33},
		{"where-k", func(k int) string {
			return "T | " + cycle([]string{"where a > 0", "where isnotnull(a)", "filter b < 3", "where a != # + 5"}, k, " | ") + " | count"
		}, 0},
		{"where-k-ands", func(k int) string {
			return "T | where " + cycle([]string{"a > 0", "b < 3", "a != # + 5", "isnotnull(a)"}, k, " and ") + " | project b, a"
		}, 0},
		{"where-one-hot", func(k int) string {
			return "T | where " + oneHot(k, hotOf(k), func(i int) string { return fmt.Sprintf("b != %d", 100+i) }, "a > 1", " and ") + " | project b, a"
		}, 0},
		{"sort-one-hot", func(k int) string {
			return "T | sort by " + oneHot(k, hotOf(k), func(i int) string { return fmt.Sprintf("b * 0 + %d", i) }, "a desc", ", ") + ", b"
		}, 0},
		{"sort-one-hot-late", func(k int) string {
			return "T | sort by " + oneHot(k, k-1, func(i int) string { return fmt.Sprintf("b * 0 + %d", i) }, "a desc", ", ") + ", b"
		}, 0},
		{"where-one-hot-late", func(k int) string {
			return "T | where " + oneHot(k, k-1, func(i int) string { return fmt.Sprintf("b != %d", 100+i) }, "a > 1", " and ") + " | project b, a"
		}, 0},
		{"take-k", func(k int) string {
			var s []string
			for i := 0; i < k; i++ {
				s = append(s, fmt.Sprintf("take %d", 2+(k-i)%3))
			}
			return "T | sort by b desc, a | " + strings.Join(s, " | ")
		}, 65},
		{"top-k", func(k int) string {
			return "T | " + cycle([]string{"top 3 by a", "top 2 by b desc", "top 2 by a asc"}, k, " | ")
		}, 65},
		{"mixed-pipeline", func(k int) string {
			s := "T"
			for i := 0; i < k; i++ {
				switch i % 6 {
				case 0:
					s += " | where a > 0"
				case 1:
					s += fmt.Sprintf(" | extend x%d = a + b", i)
				case 2:
					s += " | sort by b desc, a"
				case 3:
					s += " | project a, b"
				case 4:
					s += " | take 3"
				case 5:
					s += " | where b >= 1"
				}
			}
			return s
		}, 0},
		{"as-k", func(k int) string {
			s := "T"
			for i := 0; i < k; i++ {
				s += fmt.Sprintf(" | as N%d | where a > 0", i)
			}
			return s + " | count"
		}, 65},
		{"count-chain", func(k int) string { return "T | where a > 1" + strings.Repeat(" | count", k) }, 33},
	}
}

// c02Wide evaluates every wide pipeline on every small database.
func c02Wide(r *run.Runner, get func(w *run.Worker) *relState, dbs []rel.DB) int {
	type item struct {
		fam wideProg
		k   int
	}
	var items []item
	for _, f := range wideProgFamilies() {
		for _, k := range wideSizes(r.Thorough()) {
			if f.max > 0 && k > f.max {
				continue
			}
			items = append(items, item{f, k})
		}
	}
	r.Sweep("wide-operators", int64(len(items)), func(w *run.Worker, idx int64) {
		it := items[idx]
		text := it.fam.text(it.k)
		p, err := gen.ReadPipeline(text)
		if err != nil {
			w.HarnessError(fmt.Sprintf("wide family %s/%d does not read: %v\n%s", it.fam.name, it.k, err, text))
			return
		}
		pr := gen.Print(gen.Single(p))
		src := pr.Layout(pr.Uniform(" ")).Source
		relCheck(w, get(w), "C02", p, src, dbs, map[string]any{"family": it.fam.name, "k": it.k})
	})
	return len(items)
}

func wideJoinFamilies() []wideProg {
	kinds := []string{"kind=inner ", "", "kind=leftouter ", "kind=innerunique "}
	return []wideProg{
		{"join-k-conditions-one-hot", func(k int) string {
			return "L | join " + kinds[k%3] + "(R) on " + oneHot(k, hotOf(k), func(i int) string { return fmt.Sprintf("$left.k + %d == $right.k + %d", i, i) }, "$left.x < $right.y", ", ") + " | project x, y"
		}, 65},
		{"join-k-conditions-hot-last", func(k int) string {
			return "L | where x > 0 | join " + kinds[k%3] + "(R | where y > 0) on " + oneHot(k+1, k, func(i int) string {
				if i == 0 {
					return "k"
				}
				return fmt.Sprintf("$right.y + %d >= $left.x + %d", i, i)
			}, "$left.x != $right.y", ", ") + " | project x, y | sort by x, y"
		}, 65},
		{"join-k-conditions-with-and-group", func(k int) string {
			return "L | join " + kinds[k%3] + "(R) on " + oneHot(k, hotOf(k), func(i int) string { return fmt.Sprintf("$left.k + %d == $right.k + %d", i, i) }, "($left.x <= $right.y and $right.y != 2)", ", ") + ", $left.x > 0 | project x, y | sort by x, y"
		}, 65},
		{"join-sequence", func(k int) string {
			s := "L"
			for i := 0; i < k; i++ {
				s += " | join " + kinds[i%4] + "(R | project rk = k, y) on $left.k == $right.rk | project k, x = x + y | take 3"
			}
			return s
		}, 17},
		{"join-sequence-with-operators", func(k int) string {
			s := "L"
			for i := 0; i < k; i++ {
				s += []string{" | where x > 0", " | sort by x desc", " | extend z = x", " | project k, x"}[i%4]
				s += " | join " + kinds[(i+1)%4] + "(R | where y > 0 | project rk = k, y) on $left.k == $right.rk, $left.x <= $right.y + 9 | project k, x = y"
			}
			return s + " | count"
		}, 17},
		{"nested-right", func(k int) string {
			level := "R"
			for i := 0; i < k; i++ {
				level = "R | join " + kinds[i%4] + "(" + level + " | project k2 = k, y2 = y) on $left.k == $right.k2 | project k, y = y + y2 | take 3"
			}
			return "L | join kind=inner (" + level + ") on k | project x, y"
		}, 17},
		{"nested-right-first", func(k int) string {
			level := "C | project k, y = w"
			for i := 0; i < k; i++ {
				level = "R | where y > 0 | join " + kinds[(i+2)%4] + "(" + level + " | project k2 = k, y2 = y) on $left.k == $right.k2 | project k, y = y2 | sort by k, y | take 3"
			}
			return "L | sort by x | join kind=leftouter (" + level + ") on $left.k == $right.k | project x, y | sort by x, y"
		}, 17},
	}
}

// c03Wide evaluates joins with many conditions, long join sequences and deeply nested right-hand sides.
func c03Wide(r *run.Runner, states []*relState, dbs []rel.DB) int {
	type item struct {
		fam wideProg
		k   int
	}
	var items []item
	for _, f := range wideJoinFamilies() {
		for _, k := range wideSizes(r.Thorough()) {
			if f.max > 0 && k > f.max {
				continue
			}
			items = append(items, item{f, k})
		}
	}
	r.Sweep("wide-joins", int64(len(items)), func(w *run.Worker, idx int64) {
		if states[w.ID] == nil {
			states[w.ID] = &relState{in: sem.NewInterner()}
		}
		it := items[idx]
		text := it.fam.text(it.k)
		p, err := gen.ReadPipeline(text)
		if err != nil {
			w.HarnessError(fmt.Sprintf("wide family %s/%d does not read: %v\n%s", it.fam.name, it.k, err, text))
			return
		}
		pr := gen.Print(gen.Single(p))
		relCheck(w, states[w.ID], "C03", p, pr.Layout(pr.Uniform(" ")).Source, dbs, map[string]any{"family": it.fam.name, "k": it.k})
	})
	return len(items)
}

// widePrograms: the wide expression / pipeline / join families as generator programs (a subset of
// sizes), for the checks that compare trees, spans, walks and acceptance on the scale programs.
func widePrograms(thorough bool) []*gen.Program {
	sizes := []int{3, 8, 9, 16, 17, 33}
	if thorough {
		sizes = append(sizes, 64, 65, 129)
	}
	var out []*gen.Program
	for _, k := range sizes {
		for _, f := range wideExprFamilies() {
			if f.max > 0 && k > f.max {
				continue
			}
			var text string
			if f.hot != nil {
				text = f.hot(k, k-2)
			} else {
				text = f.text(k)
			}
			e, err := gen.ReadExpr(text)
			if err != nil {
				panic(fmt.Sprintf("wide family %s/%d does not read: %v", f.name, k, err))
			}
			out = append(out, gen.Single(&gen.Pipeline{Source: gen.Ident{Name: "T"}, Ops: []gen.Op{&gen.Where{Kw: "where", Pred: e}}}))
		}
		for _, f := range append(wideProgFamilies(), wideJoinFamilies()...) {
			if f.max > 0 && k > f.max {
				continue
			}
			p, err := gen.ReadPipeline(f.text(k))
			if err != nil {
				panic(fmt.Sprintf("wide family %s/%d does not read: %v", f.name, k, err))
			}
			out = append(out, gen.Single(p))
		}
	}
	return out
}

// wideTexts: every wide family at every wide size as plain source text (blank-separated and blank-free).
func wideTexts(thorough bool) []string {
	var out []string
	for _, k := range wideSizes(thorough) {
		for _, f := range wideExprFamilies() {
			if f.max > 0 && k > f.max {
				continue
			}
			if f.hot != nil {
				out = append(out, "T | where "+f.hot(k, k/2))
			} else {
				out = append(out, "T | where "+f.text(k))
			}
		}
		for _, f := range append(wideProgFamilies(), wideJoinFamilies()...) {
			if f.max == 0 || k <= f.max {
				out = append(out, f.text(k))
			}
		}
		for _, ws := range c06WideSeqs(false) {
			if len(ws.lets) == k {
				out = append(out, letsText(ws.lets)+"T | where a == "+ws.idents[0])
			}
		}
	}
	return out
}

// c01StringCompositions: comparisons (case-insensitive and exact) between every pair of string-valued
// shapes built from tolower / toupper / strcat / iff - the operands a compiler might treat as "already folded".
func c01StringCompositions(r *run.Runner, getState func(w *run.Worker) *c01State) {
	shapes := func(x, y string) []string {
		return []string{x, "tolower(" + x + ")", "toupper(" + x + ")", "strcat(" + x + ", 'A')", "strcat(tolower(" + x + "), 'a')", "tolower(strcat(" + x + ", 'A'))",
			"iff(na > 1, tolower(" + x + "), " + y + ")", "iff(na > 1, " + y + ", tolower(" + x + "))", "iff(isnull(" + y + "), tolower(" + x + "), " + y + ")",
			"iff(na > 1, toupper(" + x + "), tolower(" + y + "))", "iif(isnotnull(" + x + "), " + x + ", tolower(" + y + "))", "'a'", "'A'", "(tolower(" + x + "))"}
	}
	type item struct{ text string }
	var items []item
	for _, l := range shapes("sa", "sb") {
		for _, rr := range shapes("sb", "sa") {
			for _, op := range []string{"=~", "!~", "==", "!="} {
				items = append(items, item{l + " " + op + " " + rr})
			}
		}
		items = append(items, item{"tolower(" + l + ") == 'a'"}, item{l + " in ('a', sb, 'A')"}, item{"strcat(" + l + ", sb) =~ strcat(sb, " + l + ")"})
	}
	all := []typedLeaf{{"na", tNum}, {"sa", tStr}, {"sb", tStr}}
	r.Sweep("string-compositions", int64(len(items)), func(w *run.Worker, idx int64) {
		text := items[idx].text
		tree, err := gen.ReadExpr(text)
		if err != nil {
			w.HarnessError(fmt.Sprintf("string composition does not read: %v\n%s", err, text))
			return
		}
		var leaves []typedLeaf
		lex := " " + strings.NewReplacer("(", " ", ")", " ", ",", " ").Replace(text) + " "
		for _, l := range all {
			if strings.Contains(lex, " "+l.name+" ") {
				leaves = append(leaves, l)
			}
		}
		st := getState(w)
		for pi := range c01Positions {
			p := &c01Positions[pi]
			if p.name == "where" || p.name == "extend" {
				c01Check(w, st, c01Case{src: p.build(gen.ExprText(gen.WrapRoot(tree, gen.Minimal))), pos: p, tree: tree, leaves: leaves})
			}
		}
	})
}
