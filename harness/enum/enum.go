// Package enum provides deterministic exhaustive enumerators over finite alphabets.
package enum

// Pow returns a^b.
func Pow(a, b int) int64 {
	r := int64(1)
	for i := 0; i < b; i++ {
		r *= int64(a)
	}
	return r
}

// Strings describes the set of all concatenations of at most MaxLen symbols of Alpha.
// The set is partitioned into work items by the first Split symbols; item 0 also
// carries every string shorter than Split symbols.
type Strings struct {
	Alpha  []string
	MaxLen int
	Split  int
}

func (e Strings) Items() int64 {
	sp := e.Split
	if sp > e.MaxLen {
		sp = e.MaxLen
	}
	return Pow(len(e.Alpha), sp)
}

// Total returns the number of strings enumerated over all items.
func (e Strings) Total() int64 {
	var t int64
	for k := 0; k <= e.MaxLen; k++ {
		t += Pow(len(e.Alpha), k)
	}
	return t
}

// Do calls fn for every string of work item i. syms holds the symbol indexes.
// fn must not retain buf. Returning false stops the enumeration of this item.
func (e Strings) Do(item int64, fn func(buf []byte, syms []int) bool) {
	sp := e.Split
	if sp > e.MaxLen {
		sp = e.MaxLen
	}
	n := len(e.Alpha)
	buf := make([]byte, 0, 64)
	syms := make([]int, 0, e.MaxLen)
	if item == 0 {
		// all strings shorter than the split prefix
		var short func(depth int) bool
		short = func(depth int) bool {
			if !fn(buf, syms) {
				return false
			}
			if depth+1 >= sp {
				return true
			}
			for a := 0; a < n; a++ {
				l := len(buf)
				buf = append(buf, e.Alpha[a]...)
				syms = append(syms, a)
				ok := short(depth + 1)
				buf = buf[:l]
				syms = syms[:len(syms)-1]
				if !ok {
					return false
				}
			}
			return true
		}
		if sp > 0 {
			if !short(0) {
				return
			}
		}
	}
	// decode the prefix
	idx := make([]int, sp)
	x := item
	for k := sp - 1; k >= 0; k-- {
		idx[k] = int(x % int64(n))
		x /= int64(n)
	}
	buf = buf[:0]
	syms = syms[:0]
	for _, a := range idx {
		buf = append(buf, e.Alpha[a]...)
		syms = append(syms, a)
	}
	var rec func(depth int) bool
	rec = func(depth int) bool {
		if !fn(buf, syms) {
			return false
		}
		if depth >= e.MaxLen {
			return true
		}
		for a := 0; a < n; a++ {
			l := len(buf)
			buf = append(buf, e.Alpha[a]...)
			syms = append(syms, a)
			ok := rec(depth + 1)
			buf = buf[:l]
			syms = syms[:len(syms)-1]
			if !ok {
				return false
			}
		}
		return true
	}
	rec(sp)
}
