// Package gen holds the harness's own representation of PQL programs
// (derivations of the grammar), exhaustive enumerators over them, a printer that
// records the byte span of every lexeme, and the construction of the syntax tree
// the grammar prescribes for a derivation (with exact spans).
package gen

// ---- expressions ----

type Expr interface{ isExpr() }

// Leaf is a placeholder in a shape; Instantiate replaces it.
type Leaf struct{}

type Ident struct {
	Name   string
	Quoted bool
}

// Name expression: one or more dot-separated identifiers.
type Name struct{ Parts []Ident }

type LitKind int

const (
	Num LitKind = iota
	Str
)

// Lit is a literal: Text is the source spelling, Value what the lexer must report.
type Lit struct {
	Kind  LitKind
	Text  string
	Value string
}

type Unary struct {
	Op string // "+" or "-"
	X  Expr
}

type Binary struct {
	Op   string
	X, Y Expr
}

type In struct {
	X    Expr
	Vals []Expr
}

type Paren struct{ X Expr }

type Call struct {
	Func          string
	Args          []Expr
	TrailingComma bool
}

type Index struct{ X, I Expr }

func (Leaf) isExpr()    {}
func (*Name) isExpr()   {}
func (*Lit) isExpr()    {}
func (*Unary) isExpr()  {}
func (*Binary) isExpr() {}
func (*In) isExpr()     {}
func (*Paren) isExpr()  {}
func (*Call) isExpr()   {}
func (*Index) isExpr()  {}

func Col(name string) *Name          { return &Name{Parts: []Ident{{Name: name}}} }
func QCol(name string) *Name         { return &Name{Parts: []Ident{{Name: name, Quoted: true}}} }
func NumLit(text, value string) *Lit { return &Lit{Kind: Num, Text: text, Value: value} }

// StrLit builds a single-quoted literal without escapes.
func StrLit(s string) *Lit { return &Lit{Kind: Str, Text: "'" + s + "'", Value: s} }

var BinaryOps = []string{"or", "and", "==", "!=", "<", "<=", ">", ">=", "=~", "!~", "+", "-", "*", "/", "%"}

// Prec is PQL's grouping strength: or < and < comparisons/in < + - < * / % < sign < index < atoms.
func Prec(e Expr) int {
	switch e := e.(type) {
	case *Binary:
		return BinPrec(e.Op)
	case *In:
		return 2
	case *Unary:
		return 5
	case *Index:
		return 6
	default:
		return 7
	}
}

func BinPrec(op string) int {
	switch op {
	case "or":
		return 0
	case "and":
		return 1
	case "==", "!=", "<", "<=", ">", ">=", "=~", "!~":
		return 2
	case "+", "-":
		return 3
	case "*", "/", "%":
		return 4
	}
	panic("unknown operator " + op)
}

// ---- tabular operators ----

type Op interface{ isOp() }

type SortTerm struct {
	X     Expr
	Dir   string // "", "asc", "desc"
	Nulls string // "", "first", "last"
}

type Column struct {
	Name *Ident // nil = unnamed
	X    Expr   // nil = name only (project)
}

type Prop struct {
	Name  Ident
	Value Expr
}

type Count struct{}
type Where struct {
	Kw   string // where | filter
	Pred Expr
}
type Sort struct {
	Kw    string // sort | order
	Terms []SortTerm
}
type Take struct {
	Kw string // take | limit
	N  Expr
}
type Top struct {
	N  Expr
	By SortTerm
}
type Project struct{ Cols []Column }
type Extend struct{ Cols []Column }
type Summarize struct {
	Cols          []Column
	By            []Column
	HasBy         bool
	TrailingComma bool // comma directly before "by"
}
type Join struct {
	Kind  string // "" = absent
	Right *Pipeline
	On    []Expr
}
type As struct{ Name Ident }
type Render struct {
	Chart Ident
	With  bool
	Props []Prop
}

func (*Count) isOp()     {}
func (*Where) isOp()     {}
func (*Sort) isOp()      {}
func (*Take) isOp()      {}
func (*Top) isOp()       {}
func (*Project) isOp()   {}
func (*Extend) isOp()    {}
func (*Summarize) isOp() {}
func (*Join) isOp()      {}
func (*As) isOp()        {}
func (*Render) isOp()    {}

type Pipeline struct {
	Source Ident
	Ops    []Op
}

type Stmt interface{ isStmt() }

type Let struct {
	Name Ident
	X    Expr
}
type Empty struct{}

func (*Pipeline) isStmt() {}
func (*Let) isStmt()      {}
func (Empty) isStmt()     {}

// Program is a list of statements separated by semicolons; Final tells whether a
// semicolon follows the last statement.
type Program struct {
	Stmts []Stmt
	Final bool
}

func Single(p *Pipeline) *Program { return &Program{Stmts: []Stmt{p}} }
