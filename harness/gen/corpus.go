package gen

// Corpus of grammar programs: every tabular operator production with every
// combination of its optional parts, pipelines of up to two operators, let
// statements and empty statements.

import (
	"regexp"
	"strings"
)

var plainWord = regexp.MustCompile(`^[A-Za-z_][A-Za-z0-9_]*$`)

func id(n string) *Ident  { return &Ident{Name: n} }
func qid(n string) *Ident { return &Ident{Name: n, Quoted: true} }

func sampleExprs() []Expr {
	return []Expr{
		Col("a"),
		NumLit("1", "1"),
		&Binary{Op: "+", X: Col("a"), Y: Col("b")},
		&Call{Func: "f", Args: []Expr{Col("a"), StrLit("x")}},
		&Index{X: Col("m"), I: StrLit("k")},
		&Name{Parts: []Ident{{Name: "q"}, {Name: "c", Quoted: true}}},
		&Unary{Op: "-", X: Col("a")},
		&In{X: Col("a"), Vals: []Expr{NumLit("1", "1"), NumLit("2", "2")}},
		&Paren{X: &Binary{Op: "or", X: Col("a"), Y: Col("b")}},
		&Call{Func: "g", Args: []Expr{&Index{X: Col("m"), I: NumLit("1", "1")}, &In{X: Col("a"), Vals: []Expr{StrLit("é")}}}},
	}
}

// OperatorVariants returns every operator production with every combination of
// optional parts (argument expressions taken from a small representative set).
func OperatorVariants() []Op {
	var out []Op
	xs := sampleExprs()
	out = append(out, &Count{})
	for _, kw := range []string{"where", "filter"} {
		for _, x := range xs {
			out = append(out, &Where{Kw: kw, Pred: x})
		}
	}
	dirs := []string{"", "asc", "desc"}
	nulls := []string{"", "first", "last"}
	for _, kw := range []string{"sort", "order"} {
		for _, d := range dirs {
			for _, n := range nulls {
				out = append(out, &Sort{Kw: kw, Terms: []SortTerm{{X: Col("a"), Dir: d, Nulls: n}}})
				for _, d2 := range dirs {
					for _, n2 := range nulls {
						if kw == "sort" {
							out = append(out, &Sort{Kw: kw, Terms: []SortTerm{{X: Col("a"), Dir: d, Nulls: n}, {X: xs[2], Dir: d2, Nulls: n2}}})
						}
					}
				}
			}
		}
	}
	out = append(out, &Sort{Kw: "sort", Terms: []SortTerm{{X: xs[3]}, {X: xs[4], Dir: "asc"}, {X: xs[6], Nulls: "last"}}})
	for _, kw := range []string{"take", "limit"} {
		out = append(out, &Take{Kw: kw, N: NumLit("5", "5")}, &Take{Kw: kw, N: NumLit("0x10", "16")}, &Take{Kw: kw, N: NumLit("0x1e", "30")}, &Take{Kw: kw, N: &Paren{X: NumLit("0XBEEF", "48879")}}, &Take{Kw: kw, N: Col("n")},
			&Take{Kw: kw, N: &Paren{X: NumLit("3", "3")}})
	}
	for _, d := range dirs {
		for _, n := range nulls {
			out = append(out, &Top{N: NumLit("3", "3"), By: SortTerm{X: Col("a"), Dir: d, Nulls: n}})
		}
	}
	out = append(out, &Top{N: Col("n"), By: SortTerm{X: xs[2], Dir: "asc"}})
	// project: named / unnamed / mixed
	out = append(out,
		&Project{Cols: []Column{{Name: id("a")}}},
		&Project{Cols: []Column{{Name: id("a")}, {Name: qid("b c")}}},
		&Project{Cols: []Column{{Name: id("x"), X: xs[2]}}},
		&Project{Cols: []Column{{Name: id("a")}, {Name: id("x"), X: xs[3]}, {Name: id("b")}}},
		&Project{Cols: []Column{{Name: qid("x y"), X: xs[4]}, {Name: id("z"), X: xs[7]}}},
	)
	out = append(out,
		&Extend{Cols: []Column{{Name: id("x"), X: xs[2]}}},
		&Extend{Cols: []Column{{X: xs[2]}}},
		&Extend{Cols: []Column{{X: Col("a")}}},
		&Extend{Cols: []Column{{Name: id("x"), X: xs[3]}, {X: xs[4]}, {Name: qid("y z"), X: xs[6]}}},
		&Extend{Cols: []Column{{X: xs[8]}, {Name: id("w"), X: xs[7]}}},
		&Extend{Cols: []Column{{X: xs[9]}, {X: xs[4]}}},
		// the same identifier several times in one operator
		&Extend{Cols: []Column{{X: &Binary{Op: "*", X: Col("a"), Y: &Paren{X: &Unary{Op: "-", X: Col("a")}}}}}},
		&Extend{Cols: []Column{{X: Col("a")}, {X: &Binary{Op: "*", X: Col("b"), Y: &Paren{X: &Binary{Op: "*", X: NumLit("1", "1"), Y: &Unary{Op: "-", X: Col("b")}}}}}}},
		&Extend{Cols: []Column{{X: Col("v")}, {Name: id("w"), X: &Paren{X: &Unary{Op: "-", X: Col("v")}}}}},
	)
	cnt := &Call{Func: "count"}
	sum := &Call{Func: "sum", Args: []Expr{Col("b")}}
	for _, tc := range []bool{false, true} {
		out = append(out,
			&Summarize{Cols: []Column{{Name: id("n"), X: cnt}}, By: []Column{{X: Col("a")}}, HasBy: true, TrailingComma: tc},
			&Summarize{Cols: []Column{{X: cnt}, {Name: id("s"), X: sum}}, By: []Column{{Name: id("k"), X: xs[2]}, {X: Col("c")}}, HasBy: true, TrailingComma: tc},
		)
	}
	out = append(out,
		&Summarize{Cols: []Column{{X: cnt}}},
		&Summarize{Cols: []Column{{Name: id("n"), X: cnt}, {X: sum}}},
		&Summarize{By: []Column{{X: Col("a")}}, HasBy: true},
		&Summarize{By: []Column{{Name: id("k"), X: Col("a")}, {X: xs[3]}}, HasBy: true},
		&Summarize{Cols: []Column{{X: Col("a")}}, By: []Column{{X: Col("b")}}, HasBy: true},
		&Summarize{Cols: []Column{{X: cnt}, {X: xs[4]}}},
		&Summarize{Cols: []Column{{Name: id("n"), X: cnt}}, By: []Column{{X: QCol("my col")}, {X: Col("a")}}, HasBy: true},
		&Summarize{Cols: []Column{{X: QCol("my col")}}, By: []Column{{X: &Name{Parts: []Ident{{Name: "t"}, {Name: "my col", Quoted: true}}}}}, HasBy: true},
		&Summarize{Cols: []Column{{Name: id("n"), X: xs[9]}}, By: []Column{{X: xs[4]}}, HasBy: true},
	)
	right := []*Pipeline{
		{Source: *id("R")},
		{Source: *qid("R S"), Ops: []Op{&Where{Kw: "where", Pred: xs[2]}}},
		{Source: *id("R"), Ops: []Op{&Project{Cols: []Column{{Name: id("k")}, {Name: id("y")}}}, &Take{Kw: "take", N: NumLit("1", "1")}}},
		{Source: *id("R"), Ops: []Op{&Join{Right: &Pipeline{Source: *id("C")}, On: []Expr{Col("k")}}}},
	}
	lr := func(side, col string) Expr { return &Name{Parts: []Ident{{Name: side}, {Name: col}}} }
	conds := [][]Expr{
		{Col("k")},
		{&Binary{Op: "==", X: lr("$left", "k"), Y: lr("$right", "k")}},
		{Col("k"), &Binary{Op: "<", X: lr("$left", "x"), Y: lr("$right", "y")}},
		{&Binary{Op: "==", X: &Paren{X: lr("$left", "x")}, Y: lr("$right", "y")}, &Binary{Op: "!=", X: Col("y"), Y: NumLit("2", "2")}},
	}
	// parenthesised keys and conditions in every position of the list
	pk := &Paren{X: Col("k")}
	conds = append(conds,
		[]Expr{pk},
		[]Expr{&Paren{X: pk}},
		[]Expr{&Binary{Op: "==", X: lr("$left", "a"), Y: lr("$right", "b")}, pk},
		[]Expr{pk, Col("j")},
		[]Expr{Col("j"), &Paren{X: &Binary{Op: "==", X: lr("$left", "a"), Y: lr("$right", "b")}}, QCol("k")},
	)
	for _, k := range []string{"", "inner", "innerunique", "leftouter"} {
		for ri, r := range right {
			for ci, c := range conds {
				if (ri+ci)%2 == 0 || k == "" {
					out = append(out, &Join{Kind: k, Right: r, On: c})
				}
			}
		}
	}
	out = append(out, &As{Name: *id("Q")}, &As{Name: *qid("Q R")})
	// property values are expressions: signed numbers, parenthesised values, calls
	signed := []Expr{&Unary{Op: "-", X: NumLit("10", "10")}, &Unary{Op: "+", X: NumLit("2.5e3", "2.5e3")}, &Paren{X: NumLit("1", "1")}, &Call{Func: "f", Args: []Expr{Col("a")}}, &Binary{Op: "+", X: Col("a"), Y: NumLit("1", "1")}}
	for i, v := range signed {
		out = append(out,
			&Render{Chart: *id("c"), With: true, Props: []Prop{{Name: *id("ymin"), Value: v}}},
			&Render{Chart: *id("c"), With: true, Props: []Prop{{Name: *id("title"), Value: StrLit("t")}, {Name: *id("ymin"), Value: v}, {Name: *id("ymax"), Value: signed[(i+1)%len(signed)]}}},
		)
	}
	// a property assigned twice
	out = append(out, &Render{Chart: *id("c"), With: true, Props: []Prop{{Name: *id("title"), Value: StrLit("draft")}, {Name: *id("x"), Value: NumLit("1", "1")}, {Name: *id("y"), Value: Col("v")}, {Name: *id("title"), Value: StrLit("final")}}})
	vals := []Expr{StrLit("t"), Col("stacked"), NumLit("10", "10"), QCol("p q")}
	out = append(out, &Render{Chart: *id("barchart")}, &Render{Chart: *qid("pie chart")})
	for _, v := range vals {
		out = append(out, &Render{Chart: *id("c"), With: true, Props: []Prop{{Name: *id("title"), Value: v}}})
		for _, v2 := range vals {
			out = append(out, &Render{Chart: *id("c"), With: true, Props: []Prop{{Name: *id("title"), Value: v}, {Name: *qid("x t"), Value: v2}}})
		}
	}
	return out
}

// Programs returns the C07(b) corpus: one program per operator variant, all
// two-operator pipelines over a representative subset, let statements and
// programs with empty statements.
func Programs() []*Program {
	var out []*Program
	ops := OperatorVariants()
	for _, op := range ops {
		out = append(out, Single(&Pipeline{Source: *id("T"), Ops: []Op{op}}))
	}
	// representative subset for pairs: first variant of each production + a few rich ones
	var reps []Op
	seen := map[string]int{}
	for _, op := range ops {
		k := opName(op)
		seen[k]++
		if seen[k] == 1 || seen[k] == 4 {
			reps = append(reps, op)
		}
	}
	for _, a := range reps {
		for _, b := range reps {
			out = append(out, Single(&Pipeline{Source: *id("T"), Ops: []Op{a, b}}))
		}
	}
	out = append(out, Single(&Pipeline{Source: *id("T")}), Single(&Pipeline{Source: *qid("my table")}))
	// names spelled like keywords and operator names, quoted (any spelling) and unquoted (where the lexer gives an identifier)
	for _, w := range []string{"let", "where", "by", "in", "and", "or", "count", "join", "kind", "on", "with", "as", "asc", "nulls", "true", "null", "T",
		"OR", "And", "IN", "By", "aNd", "Let", "WHERE", "Null", "TRUE", "Asc", "DESC", "Count", "Kind"} {
		for _, quoted := range []bool{true, false} {
			if !quoted && (w == "by" || w == "in" || w == "and" || w == "or" || w == "let") {
				continue // keywords of the lexer / statement keyword: not identifiers when unquoted
			}
			name := Ident{Name: w, Quoted: quoted}
			col := &Name{Parts: []Ident{name}}
			out = append(out,
				&Program{Stmts: []Stmt{&Let{Name: *id("n"), X: NumLit("3", "3")}, &Pipeline{Source: name, Ops: []Op{&Top{N: Col("n"), By: SortTerm{X: col, Dir: "desc"}}}}}},
				Single(&Pipeline{Source: name, Ops: []Op{&Where{Kw: "where", Pred: &Binary{Op: "==", X: col, Y: &Name{Parts: []Ident{{Name: "t"}, name}}}}, &As{Name: name}}}),
				Single(&Pipeline{Source: *id("T"), Ops: []Op{&Project{Cols: []Column{{Name: &name}, {Name: &name, X: col}}}, &Join{Right: &Pipeline{Source: name}, On: []Expr{col}}, &Summarize{Cols: []Column{{Name: &name, X: &Call{Func: "count"}}}, By: []Column{{Name: &name, X: col}}, HasBy: true}}}),
			)
		}
	}
	// a let whose name coincides with an identifier of the query (table, column, key, alias, function, property, chart):
	// the statement's tree does not depend on what is bound
	syntaxWords := map[string]bool{}
	for _, w := range strings.Fields("where filter sort order by asc desc nulls first last take limit top project extend summarize join kind on as render with count in and or let inner innerunique leftouter true false null") {
		syntaxWords[w] = true
	}
	var coincideOps []Op
	coincideOps = append(coincideOps, reps...)
	for _, op := range ops {
		switch op.(type) {
		case *Join, *Render:
			coincideOps = append(coincideOps, op)
		}
	}
	for _, op := range coincideOps {
		p := &Pipeline{Source: *id("T"), Ops: []Op{op}}
		names := map[string]bool{}
		var order []string
		for _, l := range Print(Single(p)).Lexemes {
			if plainWord.MatchString(l) && !syntaxWords[l] && !names[l] {
				names[l] = true
				order = append(order, l)
			}
		}
		if len(order) > 4 {
			order = order[:4]
		}
		for i, n := range order {
			lets := []Stmt{&Let{Name: *id(n), X: NumLit("7", "7")}}
			if i == 1 {
				lets = append([]Stmt{&Let{Name: *id("lo"), X: NumLit("10", "10")}}, lets...)
			}
			out = append(out, &Program{Stmts: append(lets, p)})
		}
	}
	// the same kind of bracketed group in several operators, on both sides of a join, and in a let next to the query
	idx := func(base, key string) Expr { return &Index{X: Col(base), I: StrLit(key)} }
	eq1 := func(x Expr) Expr { return &Binary{Op: "==", X: x, Y: NumLit("1", "1")} }
	inl := func(x string, vals ...Expr) Expr { return &In{X: Col(x), Vals: vals} }
	call := func(f string, args ...Expr) Expr { return &Call{Func: f, Args: args} }
	rightIdx := &Pipeline{Source: *id("Y"), Ops: []Op{&Where{Kw: "where", Pred: eq1(idx("n", "b"))}}}
	rightMix := &Pipeline{Source: *id("Y"), Ops: []Op{&Extend{Cols: []Column{{Name: id("z"), X: call("f", idx("n", "b"), inl("c", NumLit("1", "1"), call("g", NumLit("2", "2"))))}}}, &Where{Kw: "where", Pred: &Paren{X: eq1(idx("p", "q"))}}}}
	out = append(out,
		Single(&Pipeline{Source: *id("X"), Ops: []Op{&Where{Kw: "where", Pred: eq1(idx("m", "a"))}, &Join{Right: rightIdx, On: []Expr{Col("k")}}}}),
		Single(&Pipeline{Source: *id("X"), Ops: []Op{&Where{Kw: "where", Pred: eq1(idx("m", "a"))}, &Join{Kind: "leftouter", Right: rightMix, On: []Expr{&Binary{Op: "==", X: &Index{X: &Name{Parts: []Ident{{Name: "$left"}, {Name: "m"}}}, I: NumLit("0", "0")}, Y: &Name{Parts: []Ident{{Name: "$right"}, {Name: "z"}}}}}}, &Extend{Cols: []Column{{X: idx("r", "s")}}}}}),
		&Program{Stmts: []Stmt{&Let{Name: *id("a"), X: call("f", NumLit("1", "1"))}, &Pipeline{Source: *id("T"), Ops: []Op{&Where{Kw: "where", Pred: eq1(idx("n", "j"))}}}}},
		&Program{Stmts: []Stmt{&Let{Name: *id("a"), X: &Paren{X: NumLit("1", "1")}}, &Let{Name: *id("b"), X: inl("a", NumLit("1", "1"), NumLit("2", "2"))}, &Pipeline{Source: *id("T"), Ops: []Op{&Where{Kw: "where", Pred: inl("x", NumLit("1", "1"), call("f", NumLit("2", "2")))}, &Extend{Cols: []Column{{Name: id("b"), X: inl("x", NumLit("1", "1"), NumLit("2", "2"), call("g", NumLit("3", "3")))}}}}}}},
		Single(&Pipeline{Source: *id("T"), Ops: []Op{&Where{Kw: "where", Pred: eq1(idx("m", "a"))}, &Extend{Cols: []Column{{Name: id("z"), X: idx("n", "b")}}}, &Sort{Kw: "sort", Terms: []SortTerm{{X: idx("p", "c")}}}, &Summarize{Cols: []Column{{Name: id("u"), X: call("max", idx("q", "d"))}}, By: []Column{{Name: id("v"), X: idx("r", "e")}}, HasBy: true}}}),
		&Program{Stmts: []Stmt{&Pipeline{Source: *id("T"), Ops: []Op{&Where{Kw: "where", Pred: eq1(idx("m", "a"))}}}, &Pipeline{Source: *id("U"), Ops: []Op{&Where{Kw: "where", Pred: eq1(idx("n", "b"))}}}}},
	)
	// every kind of operator inside a join's right-hand side, first, in the middle and last
	for _, op := range reps {
		if _, isJoin := op.(*Join); isJoin {
			continue
		}
		w := &Where{Kw: "where", Pred: &Binary{Op: ">", X: Col("x"), Y: NumLit("1", "1")}}
		pr := &Project{Cols: []Column{{Name: id("k")}, {Name: id("x")}}}
		for _, ops := range [][]Op{{op, w, pr}, {w, op, pr}, {w, pr, op}} {
			out = append(out, Single(&Pipeline{Source: *id("A"), Ops: []Op{&Join{Right: &Pipeline{Source: *id("B"), Ops: ops}, On: []Expr{Col("k")}}, &Count{}}}))
		}
	}
	// render with the chart types and property vocabulary of the query language it is modelled on
	for ci, chart := range []string{"barchart", "areachart", "columnchart", "timechart", "piechart", "table", "linechart"} {
		props := [][2]string{{"kind", "stacked"}, {"kind", "unstacked"}, {"kind", "stacked100"}, {"legend", "hidden"}, {"legend", "visible"}, {"ysplit", "panels"}, {"ysplit", "axes"}, {"ysplit", "none"},
			{"xaxis", "log"}, {"yaxis", "linear"}, {"accumulate", "true"}, {"xcolumn", "a"}, {"series", "b"}, {"kind", "mine"}}
		for pi := ci % 2; pi < len(props); pi += 2 {
			p1, p2 := props[pi], props[(pi+3)%len(props)]
			out = append(out, Single(&Pipeline{Source: *id("T"), Ops: []Op{&Render{Chart: *id(chart), With: true, Props: []Prop{{Name: *id(p1[0]), Value: Col(p1[1])}, {Name: *id("title"), Value: StrLit("t")}, {Name: *id(p2[0]), Value: Col(p2[1])}}}}}))
		}
	}
	// lets and empty statements
	q := &Pipeline{Source: *id("T"), Ops: []Op{&Take{Kw: "take", N: Col("n")}}}
	lets := []Stmt{
		&Let{Name: *id("n"), X: NumLit("3", "3")},
		&Let{Name: *id("n"), X: &Binary{Op: "+", X: NumLit("1", "1"), Y: NumLit("2", "2")}},
		&Let{Name: *qid("n m"), X: StrLit("s")},
		&Let{Name: *id("n"), X: &Unary{Op: "-", X: NumLit("5", "5")}},
		&Let{Name: *id("n"), X: &Call{Func: "now"}},
	}
	for _, l := range lets {
		out = append(out,
			&Program{Stmts: []Stmt{l, q}},
			&Program{Stmts: []Stmt{l, q}, Final: true},
			&Program{Stmts: []Stmt{Empty{}, l, Empty{}, q, Empty{}}, Final: true},
			&Program{Stmts: []Stmt{q, l}},
			&Program{Stmts: []Stmt{l}},
		)
	}
	out = append(out,
		&Program{Stmts: []Stmt{lets[0], lets[1], q}},
		&Program{Stmts: []Stmt{q, q}},
		&Program{Stmts: []Stmt{Empty{}, Empty{}}, Final: true},
		&Program{Stmts: []Stmt{q}, Final: true},
		&Program{},
	)
	return out
}

// IsCoincidingLetProgram reports whether p is one of the `let N = 7; <query>` programs of the corpus (the same
// query occurs without the let; sweeps that multiply the corpus by edits may skip these in their quick tier).
func IsCoincidingLetProgram(p *Program) bool {
	if len(p.Stmts) < 2 {
		return false
	}
	l, ok := p.Stmts[len(p.Stmts)-2].(*Let)
	if !ok {
		return false
	}
	lit, ok := l.X.(*Lit)
	return ok && lit.Text == "7"
}

func opName(op Op) string {
	switch op.(type) {
	case *Count:
		return "count"
	case *Where:
		return "where"
	case *Sort:
		return "sort"
	case *Take:
		return "take"
	case *Top:
		return "top"
	case *Project:
		return "project"
	case *Extend:
		return "extend"
	case *Summarize:
		return "summarize"
	case *Join:
		return "join"
	case *As:
		return "as"
	case *Render:
		return "render"
	}
	return "?"
}

// OpName names the production of an operator.
func OpName(op Op) string { return opName(op) }
