package gen

import "fmt"

// NodeKind describes one kind of internal node for the exhaustive tree enumerator.
type NodeKind struct {
	Name  string
	Arity int
	Make  func(ch []Expr) Expr
}

func BinKind(op string) NodeKind {
	return NodeKind{Name: op, Arity: 2, Make: func(ch []Expr) Expr { return &Binary{Op: op, X: ch[0], Y: ch[1]} }}
}

func CallKind(fn string, arity int) NodeKind {
	return NodeKind{Name: fmt.Sprintf("%s/%d", fn, arity), Arity: arity, Make: func(ch []Expr) Expr {
		return &Call{Func: fn, Args: append([]Expr{}, ch...)}
	}}
}

var (
	In1Kind   = NodeKind{Name: "in/1", Arity: 2, Make: func(ch []Expr) Expr { return &In{X: ch[0], Vals: []Expr{ch[1]}} }}
	In2Kind   = NodeKind{Name: "in/2", Arity: 3, Make: func(ch []Expr) Expr { return &In{X: ch[0], Vals: []Expr{ch[1], ch[2]}} }}
	NegKind   = NodeKind{Name: "neg", Arity: 1, Make: func(ch []Expr) Expr { return &Unary{Op: "-", X: ch[0]} }}
	PosKind   = NodeKind{Name: "pos", Arity: 1, Make: func(ch []Expr) Expr { return &Unary{Op: "+", X: ch[0]} }}
	IndexKind = NodeKind{Name: "index", Arity: 2, Make: func(ch []Expr) Expr { return &Index{X: ch[0], I: ch[1]} }}
	ParenKind = NodeKind{Name: "paren", Arity: 1, Make: func(ch []Expr) Expr { return &Paren{X: ch[0]} }}
)

func AllBinKinds() []NodeKind {
	var k []NodeKind
	for _, op := range BinaryOps {
		k = append(k, BinKind(op))
	}
	return k
}

// Shapes enumerates expression trees with Leaf placeholders.
type Shapes struct {
	Kinds []NodeKind
	// by[n] = all shapes with exactly n internal nodes (materialised up to Keep)
	by   [][]Expr
	keep int
}

// NewShapes materialises all shapes with at most keep internal nodes.
func NewShapes(kinds []NodeKind, keep int) *Shapes {
	s := &Shapes{Kinds: kinds, keep: keep}
	s.by = append(s.by, []Expr{Leaf{}})
	for n := 1; n <= keep; n++ {
		var level []Expr
		s.Level(n, func(e Expr) bool { level = append(level, e); return true })
		s.by = append(s.by, level)
	}
	return s
}

// Count returns the number of shapes with exactly n internal nodes (n <= keep+1).
func (s *Shapes) Count(n int) int64 {
	if n < len(s.by) {
		return int64(len(s.by[n]))
	}
	var c int64
	for _, it := range s.Items(n) {
		c += it.count
	}
	return c
}

// Item is a work item of level n: a root kind and a split of the remaining nodes
// over its children.
type Item struct {
	kind  NodeKind
	sizes []int
	count int64
}

func compositions(total, parts int) [][]int {
	if parts == 0 {
		if total == 0 {
			return [][]int{{}}
		}
		return nil
	}
	var out [][]int
	for first := 0; first <= total; first++ {
		for _, rest := range compositions(total-first, parts-1) {
			out = append(out, append([]int{first}, rest...))
		}
	}
	return out
}

// Items lists the work items whose union is all shapes with exactly n internal
// nodes; requires n-1 <= keep.
func (s *Shapes) Items(n int) []Item {
	var items []Item
	for _, k := range s.Kinds {
		for _, sizes := range compositions(n-1, k.Arity) {
			c := int64(1)
			for _, sz := range sizes {
				c *= int64(len(s.by[sz]))
			}
			if c > 0 {
				items = append(items, Item{kind: k, sizes: sizes, count: c})
			}
		}
	}
	return items
}

// Do enumerates the shapes of one item.
func (s *Shapes) Do(it Item, fn func(e Expr) bool) bool {
	ch := make([]Expr, it.kind.Arity)
	var rec func(i int) bool
	rec = func(i int) bool {
		if i == len(ch) {
			return fn(it.kind.Make(ch))
		}
		for _, c := range s.by[it.sizes[i]] {
			ch[i] = c
			if !rec(i + 1) {
				return false
			}
		}
		return true
	}
	return rec(0)
}

// Level enumerates all shapes with exactly n internal nodes.
func (s *Shapes) Level(n int, fn func(e Expr) bool) {
	if n < len(s.by) {
		for _, e := range s.by[n] {
			if !fn(e) {
				return
			}
		}
		return
	}
	for _, it := range s.Items(n) {
		if !s.Do(it, fn) {
			return
		}
	}
}

// CountLeaves returns the number of Leaf placeholders.
func CountLeaves(e Expr) int {
	switch e := e.(type) {
	case Leaf:
		return 1
	case *Unary:
		return CountLeaves(e.X)
	case *Binary:
		return CountLeaves(e.X) + CountLeaves(e.Y)
	case *In:
		n := CountLeaves(e.X)
		for _, v := range e.Vals {
			n += CountLeaves(v)
		}
		return n
	case *Paren:
		return CountLeaves(e.X)
	case *Call:
		n := 0
		for _, a := range e.Args {
			n += CountLeaves(a)
		}
		return n
	case *Index:
		return CountLeaves(e.X) + CountLeaves(e.I)
	}
	return 0
}

// Instantiate returns a fresh copy of shape with the i-th leaf (left to right)
// replaced by leaf(i).
func Instantiate(shape Expr, leaf func(i int) Expr) Expr {
	i := 0
	var rec func(e Expr) Expr
	rec = func(e Expr) Expr {
		switch e := e.(type) {
		case Leaf:
			x := leaf(i)
			i++
			return x
		case *Unary:
			return &Unary{Op: e.Op, X: rec(e.X)}
		case *Binary:
			x := rec(e.X)
			return &Binary{Op: e.Op, X: x, Y: rec(e.Y)}
		case *In:
			n := &In{X: rec(e.X)}
			for _, v := range e.Vals {
				n.Vals = append(n.Vals, rec(v))
			}
			return n
		case *Paren:
			return &Paren{X: rec(e.X)}
		case *Call:
			n := &Call{Func: e.Func, TrailingComma: e.TrailingComma}
			for _, a := range e.Args {
				n.Args = append(n.Args, rec(a))
			}
			return n
		case *Index:
			x := rec(e.X)
			return &Index{X: x, I: rec(e.I)}
		default:
			return e
		}
	}
	return rec(shape)
}

// ParenMode selects how AddParens parenthesises a tree.
type ParenMode int

const (
	Minimal   ParenMode = iota // only where PQL grouping requires them
	Full                       // around every non-atomic operand
	Redundant                  // minimal, plus ((x)) around every operand and the root
)

// needsParen reports whether child must be parenthesised in the given operand
// position of parent for the text to be read back as this tree.
func needsParen(parent Expr, pos int, child Expr) bool {
	if _, ok := child.(*Paren); ok {
		return false
	}
	cp := Prec(child)
	switch p := parent.(type) {
	case *Binary:
		pp := BinPrec(p.Op)
		if pos == 0 {
			return cp < pp
		}
		return cp <= pp
	case *In:
		if pos == 0 {
			return cp < 2
		}
		return false
	case *Unary:
		return cp < 6 // operand of a sign is a primary expression (index, call, atom)
	case *Index:
		if pos == 0 {
			return cp < 7 // only atoms, calls and parentheses can be indexed
		}
		return false
	}
	return false
}

func isAtom(e Expr) bool {
	switch e.(type) {
	case *Name, *Lit, *Paren:
		return true
	}
	return false
}

// AddParens inserts Paren nodes according to mode. The input must not contain
// Paren nodes of its own unless they are meant as part of the tree.
func AddParens(e Expr, mode ParenMode) Expr {
	wrap := func(parent Expr, pos int, child Expr) Expr {
		c := AddParens(child, mode)
		switch mode {
		case Minimal:
			if needsParen(parent, pos, child) {
				return &Paren{X: c}
			}
		case Full:
			if needsParen(parent, pos, child) || !isAtom(child) {
				return &Paren{X: c}
			}
		case Redundant:
			return &Paren{X: &Paren{X: c}}
		}
		return c
	}
	var out Expr
	switch e := e.(type) {
	case *Unary:
		out = &Unary{Op: e.Op, X: wrap(e, 0, e.X)}
	case *Binary:
		x := wrap(e, 0, e.X)
		out = &Binary{Op: e.Op, X: x, Y: wrap(e, 1, e.Y)}
	case *In:
		n := &In{X: wrap(e, 0, e.X)}
		for i, v := range e.Vals {
			n.Vals = append(n.Vals, wrap(e, i+1, v))
		}
		out = n
	case *Paren:
		out = &Paren{X: AddParens(e.X, mode)}
	case *Call:
		n := &Call{Func: e.Func, TrailingComma: e.TrailingComma}
		for i, a := range e.Args {
			n.Args = append(n.Args, wrap(e, i, a))
		}
		out = n
	case *Index:
		x := wrap(e, 0, e.X)
		out = &Index{X: x, I: wrap(e, 1, e.I)}
	default:
		out = e
	}
	return out
}

// WrapRoot applies the mode's treatment of the root expression.
func WrapRoot(e Expr, mode ParenMode) Expr {
	e = AddParens(e, mode)
	if mode == Redundant {
		return &Paren{X: e}
	}
	return e
}

// StripParens removes all Paren nodes (the meaning of a tree never depends on them).
func StripParens(e Expr) Expr {
	switch e := e.(type) {
	case *Paren:
		return StripParens(e.X)
	case *Unary:
		return &Unary{Op: e.Op, X: StripParens(e.X)}
	case *Binary:
		return &Binary{Op: e.Op, X: StripParens(e.X), Y: StripParens(e.Y)}
	case *In:
		n := &In{X: StripParens(e.X)}
		for _, v := range e.Vals {
			n.Vals = append(n.Vals, StripParens(v))
		}
		return n
	case *Call:
		n := &Call{Func: e.Func, TrailingComma: e.TrailingComma}
		for _, a := range e.Args {
			n.Args = append(n.Args, StripParens(a))
		}
		return n
	case *Index:
		return &Index{X: StripParens(e.X), I: StripParens(e.I)}
	}
	return e
}

// FreshCols returns a leaf function producing distinct plain columns a, b, c, ...
func FreshCols() func(i int) Expr {
	return func(i int) Expr {
		if i < 26 {
			return Col(string(rune('a' + i)))
		}
		return Col(fmt.Sprintf("c%d", i))
	}
}
