package gen

import (
	"reflect"
	"strings"

	"github.com/runreveal/pql/parser"
	"verif/harness/reftok"
)

// Lex is one printed lexeme with its byte extent in the laid-out source.
type Lex struct {
	Text       string
	Start, End int
}

// Printed is a derivation turned into lexemes plus the tree the grammar prescribes.
// Before Layout all spans are in lexeme-index space; Layout produces a source text
// and a copy of the tree with byte spans.
type Printed struct {
	Lexemes []string
	tree    []parser.Statement
	ranges  map[any][2]int // node (pointer) -> first,last lexeme index
}

type builder struct {
	lex    []string
	ranges map[any][2]int
}

func (b *builder) tok(text string) parser.Span {
	b.lex = append(b.lex, text)
	return parser.Span{Start: len(b.lex) - 1, End: len(b.lex)}
}

func null() parser.Span { return parser.Span{Start: -1, End: -1} }

func (b *builder) mark(n any, first int) {
	b.ranges[n] = [2]int{first, len(b.lex) - 1}
}

// QuoteIdent returns the back-tick spelling of a name.
func QuoteIdent(name string) string {
	return "`" + strings.ReplaceAll(name, "`", "``") + "`"
}

func identText(id Ident) string {
	if id.Quoted {
		return QuoteIdent(id.Name)
	}
	return id.Name
}

func (b *builder) ident(id Ident) *parser.Ident {
	first := len(b.lex)
	n := &parser.Ident{Name: id.Name, NameSpan: b.tok(identText(id)), Quoted: id.Quoted}
	b.mark(n, first)
	return n
}

var tokenKinds = map[string]parser.TokenKind{
	"or": parser.TokenOr, "and": parser.TokenAnd, "==": parser.TokenEq, "!=": parser.TokenNE, "<": parser.TokenLT, "<=": parser.TokenLE,
	">": parser.TokenGT, ">=": parser.TokenGE, "=~": parser.TokenCaseInsensitiveEq, "!~": parser.TokenCaseInsensitiveNE,
	"+": parser.TokenPlus, "-": parser.TokenMinus, "*": parser.TokenStar, "/": parser.TokenSlash, "%": parser.TokenMod,
}

func (b *builder) expr(e Expr) parser.Expr {
	first := len(b.lex)
	var out parser.Expr
	switch e := e.(type) {
	case *Name:
		q := &parser.QualifiedIdent{}
		for i, p := range e.Parts {
			if i > 0 {
				b.tok(".")
			}
			q.Parts = append(q.Parts, b.ident(p))
		}
		out = q
	case *Lit:
		k := parser.TokenNumber
		if e.Kind == Str {
			k = parser.TokenString
		}
		out = &parser.BasicLit{ValueSpan: b.tok(e.Text), Kind: k, Value: e.Value}
	case *Unary:
		n := &parser.UnaryExpr{Op: tokenKinds[e.Op]}
		n.OpSpan = b.tok(e.Op)
		n.X = b.expr(e.X)
		out = n
	case *Binary:
		n := &parser.BinaryExpr{Op: tokenKinds[e.Op]}
		n.X = b.expr(e.X)
		n.OpSpan = b.tok(e.Op)
		n.Y = b.expr(e.Y)
		out = n
	case *In:
		n := &parser.InExpr{}
		n.X = b.expr(e.X)
		n.In = b.tok("in")
		n.Lparen = b.tok("(")
		for i, v := range e.Vals {
			if i > 0 {
				b.tok(",")
			}
			n.Vals = append(n.Vals, b.expr(v))
		}
		n.Rparen = b.tok(")")
		out = n
	case *Paren:
		n := &parser.ParenExpr{}
		n.Lparen = b.tok("(")
		n.X = b.expr(e.X)
		n.Rparen = b.tok(")")
		out = n
	case *Call:
		n := &parser.CallExpr{}
		n.Func = &parser.Ident{Name: e.Func, NameSpan: b.tok(e.Func)}
		b.ranges[n.Func] = [2]int{first, first}
		n.Lparen = b.tok("(")
		for i, a := range e.Args {
			if i > 0 {
				b.tok(",")
			}
			n.Args = append(n.Args, b.expr(a))
		}
		if e.TrailingComma {
			b.tok(",")
		}
		n.Rparen = b.tok(")")
		out = n
	case *Index:
		n := &parser.IndexExpr{}
		n.X = b.expr(e.X)
		n.Lbrack = b.tok("[")
		n.Index = b.expr(e.I)
		n.Rbrack = b.tok("]")
		out = n
	default:
		panic("gen: cannot print expression (uninstantiated leaf?)")
	}
	b.mark(out, first)
	return out
}

func union(a, c parser.Span) parser.Span { return parser.Span{Start: a.Start, End: c.End} }

func (b *builder) sortTerm(t SortTerm) *parser.SortTerm {
	first := len(b.lex)
	n := &parser.SortTerm{AscDescSpan: null(), NullsSpan: null()}
	n.X = b.expr(t.X)
	switch t.Dir {
	case "asc":
		n.Asc, n.NullsFirst = true, true
		n.AscDescSpan = b.tok("asc")
	case "desc":
		n.AscDescSpan = b.tok("desc")
	}
	switch t.Nulls {
	case "first":
		n.NullsFirst = true
		n.NullsSpan = union(b.tok("nulls"), b.tok("first"))
	case "last":
		n.NullsFirst = false
		n.NullsSpan = union(b.tok("nulls"), b.tok("last"))
	}
	b.mark(n, first)
	return n
}

func (b *builder) pipeline(p *Pipeline) *parser.TabularExpr {
	first := len(b.lex)
	t := &parser.TabularExpr{}
	ref := &parser.TableRef{Table: b.ident(p.Source)}
	b.mark(ref, first)
	t.Source = ref
	for _, op := range p.Ops {
		t.Operators = append(t.Operators, b.op(op))
	}
	b.mark(t, first)
	return t
}

func (b *builder) op(op Op) parser.TabularOperator {
	first := len(b.lex)
	pipe := b.tok("|")
	var out parser.TabularOperator
	switch op := op.(type) {
	case *Count:
		out = &parser.CountOperator{Pipe: pipe, Keyword: b.tok("count")}
	case *Where:
		n := &parser.WhereOperator{Pipe: pipe, Keyword: b.tok(op.Kw)}
		n.Predicate = b.expr(op.Pred)
		out = n
	case *Sort:
		n := &parser.SortOperator{Pipe: pipe}
		n.Keyword = union(b.tok(op.Kw), b.tok("by"))
		for i, t := range op.Terms {
			if i > 0 {
				b.tok(",")
			}
			n.Terms = append(n.Terms, b.sortTerm(t))
		}
		out = n
	case *Take:
		n := &parser.TakeOperator{Pipe: pipe, Keyword: b.tok(op.Kw)}
		n.RowCount = b.expr(op.N)
		out = n
	case *Top:
		n := &parser.TopOperator{Pipe: pipe, Keyword: b.tok("top")}
		n.RowCount = b.expr(op.N)
		n.By = b.tok("by")
		n.Col = b.sortTerm(op.By)
		out = n
	case *Project:
		n := &parser.ProjectOperator{Pipe: pipe, Keyword: b.tok("project")}
		for i, c := range op.Cols {
			if i > 0 {
				b.tok(",")
			}
			cf := len(b.lex)
			pc := &parser.ProjectColumn{Assign: null()}
			pc.Name = b.ident(*c.Name)
			if c.X != nil {
				pc.Assign = b.tok("=")
				pc.X = b.expr(c.X)
			}
			b.mark(pc, cf)
			n.Cols = append(n.Cols, pc)
		}
		out = n
	case *Extend:
		n := &parser.ExtendOperator{Pipe: pipe, Keyword: b.tok("extend")}
		for i, c := range op.Cols {
			if i > 0 {
				b.tok(",")
			}
			cf := len(b.lex)
			ec := &parser.ExtendColumn{Assign: null()}
			if c.Name != nil {
				ec.Name = b.ident(*c.Name)
				ec.Assign = b.tok("=")
			}
			ec.X = b.expr(c.X)
			b.mark(ec, cf)
			n.Cols = append(n.Cols, ec)
		}
		out = n
	case *Summarize:
		n := &parser.SummarizeOperator{Pipe: pipe, Keyword: b.tok("summarize"), By: null()}
		col := func(c Column) *parser.SummarizeColumn {
			cf := len(b.lex)
			sc := &parser.SummarizeColumn{Assign: null()}
			if c.Name != nil {
				sc.Name = b.ident(*c.Name)
				sc.Assign = b.tok("=")
			}
			sc.X = b.expr(c.X)
			b.mark(sc, cf)
			return sc
		}
		for i, c := range op.Cols {
			if i > 0 {
				b.tok(",")
			}
			n.Cols = append(n.Cols, col(c))
		}
		if op.TrailingComma {
			b.tok(",")
		}
		if op.HasBy {
			n.By = b.tok("by")
			for i, c := range op.By {
				if i > 0 {
					b.tok(",")
				}
				n.GroupBy = append(n.GroupBy, col(c))
			}
		}
		out = n
	case *Join:
		n := &parser.JoinOperator{Pipe: pipe, Keyword: b.tok("join"), Kind: null(), KindAssign: null()}
		if op.Kind != "" {
			n.Kind = b.tok("kind")
			n.KindAssign = b.tok("=")
			kf := len(b.lex)
			n.Flavor = &parser.Ident{Name: op.Kind, NameSpan: b.tok(op.Kind)}
			b.mark(n.Flavor, kf)
		}
		n.Lparen = b.tok("(")
		n.Right = b.pipeline(op.Right)
		n.Rparen = b.tok(")")
		n.On = b.tok("on")
		for i, c := range op.On {
			if i > 0 {
				b.tok(",")
			}
			n.Conditions = append(n.Conditions, b.expr(c))
		}
		out = n
	case *As:
		n := &parser.AsOperator{Pipe: pipe, Keyword: b.tok("as")}
		n.Name = b.ident(op.Name)
		out = n
	case *Render:
		n := &parser.RenderOperator{Pipe: pipe, Keyword: b.tok("render"), With: null(), Lparen: null(), Rparen: null()}
		n.ChartType = b.ident(op.Chart)
		if op.With {
			n.With = b.tok("with")
			n.Lparen = b.tok("(")
			for i, p := range op.Props {
				if i > 0 {
					b.tok(",")
				}
				pf := len(b.lex)
				rp := &parser.RenderProperty{}
				rp.Name = b.ident(p.Name)
				rp.Assign = b.tok("=")
				rp.Value = b.expr(p.Value)
				b.mark(rp, pf)
				n.Props = append(n.Props, rp)
			}
			n.Rparen = b.tok(")")
		}
		out = n
	default:
		panic("gen: unknown operator")
	}
	b.mark(out, first)
	return out
}

// Print turns a program into lexemes and the prescribed tree (lexeme-index spans).
func Print(p *Program) *Printed {
	b := &builder{ranges: map[any][2]int{}}
	var stmts []parser.Statement
	for i, s := range p.Stmts {
		if i > 0 {
			b.tok(";")
		}
		first := len(b.lex)
		switch s := s.(type) {
		case *Pipeline:
			stmts = append(stmts, b.pipeline(s))
		case *Let:
			n := &parser.LetStatement{Keyword: b.tok("let")}
			n.Name = b.ident(s.Name)
			n.Assign = b.tok("=")
			n.X = b.expr(s.X)
			b.mark(n, first)
			stmts = append(stmts, n)
		case Empty:
		}
	}
	if p.Final {
		b.tok(";")
	}
	return &Printed{Lexemes: b.lex, tree: stmts, ranges: b.ranges}
}

// PrintExpr prints a bare expression (used by checks that embed it themselves).
func ExprLexemes(e Expr) []string {
	b := &builder{ranges: map[any][2]int{}}
	b.expr(e)
	return b.lex
}

// ExprText prints an expression with single spaces between lexemes.
func ExprText(e Expr) string { return strings.Join(ExprLexemes(e), " ") }

// Laid is a printed program with a concrete layout.
type Laid struct {
	Source  string
	Lexemes []Lex
	Tree    []parser.Statement
	// Ranges maps each node of Tree (pointer) to the byte extent from its first to its last lexeme.
	Ranges map[any]parser.Span
}

// CanAbut reports whether lexemes a and b can be written without a separator and
// still be read as the same two lexemes.
func CanAbut(a, b string) bool {
	t := reftok.Scan(a + b)
	return len(t) == 2 && t[0].Start == 0 && t[0].End == len(a) && t[1].Start == len(a) && t[1].End == len(a)+len(b)
}

// Layout writes the lexemes with the given separators: seps[i] precedes lexeme i,
// seps[len] follows the last one. A "" separator is replaced by " " where the two
// lexemes would merge.
func (p *Printed) Layout(seps []string) *Laid {
	var sb strings.Builder
	lx := make([]Lex, len(p.Lexemes))
	for i, t := range p.Lexemes {
		sep := seps[i]
		if sep == "" && i > 0 && !CanAbut(p.Lexemes[i-1], t) {
			sep = " "
		}
		if i > 0 && strings.HasPrefix(sep, "/") && strings.HasSuffix(p.Lexemes[i-1], "/") {
			sep = " " + sep // a division sign directly before a comment would become part of it
		}
		sb.WriteString(sep)
		lx[i] = Lex{Text: t, Start: sb.Len(), End: sb.Len() + len(t)}
		sb.WriteString(t)
	}
	sb.WriteString(seps[len(p.Lexemes)])
	l := &Laid{Source: sb.String(), Lexemes: lx, Ranges: map[any]parser.Span{}}
	memo := map[any]any{}
	for _, s := range p.tree {
		c := remap(reflect.ValueOf(s), lx, memo)
		l.Tree = append(l.Tree, c.Interface().(parser.Statement))
	}
	for n, r := range p.ranges {
		if c, ok := memo[n]; ok {
			l.Ranges[c] = parser.Span{Start: lx[r[0]].Start, End: lx[r[1]].End}
		}
	}
	return l
}

// Uniform returns a layout with the same separator in every inner gap.
func (p *Printed) Uniform(sep string) []string {
	s := make([]string, len(p.Lexemes)+1)
	for i := 1; i < len(p.Lexemes); i++ {
		s[i] = sep
	}
	return s
}

var spanT = reflect.TypeOf(parser.Span{})

// remap deep-copies a tree, translating lexeme-index spans into byte spans.
func remap(v reflect.Value, lx []Lex, memo map[any]any) reflect.Value {
	switch v.Kind() {
	case reflect.Interface:
		if v.IsNil() {
			return v
		}
		c := remap(v.Elem(), lx, memo)
		out := reflect.New(v.Type()).Elem()
		out.Set(c)
		return out
	case reflect.Ptr:
		if v.IsNil() {
			return v
		}
		out := reflect.New(v.Type().Elem())
		out.Elem().Set(remap(v.Elem(), lx, memo))
		memo[v.Interface()] = out.Interface()
		return out
	case reflect.Struct:
		if v.Type() == spanT {
			s := v.Interface().(parser.Span)
			if s.Start < 0 {
				return v
			}
			return reflect.ValueOf(parser.Span{Start: lx[s.Start].Start, End: lx[s.End-1].End})
		}
		out := reflect.New(v.Type()).Elem()
		for i := 0; i < v.NumField(); i++ {
			if v.Type().Field(i).IsExported() {
				out.Field(i).Set(remap(v.Field(i), lx, memo))
			}
		}
		return out
	case reflect.Slice:
		if v.IsNil() {
			return v
		}
		out := reflect.MakeSlice(v.Type(), v.Len(), v.Len())
		for i := 0; i < v.Len(); i++ {
			out.Index(i).Set(remap(v.Index(i), lx, memo))
		}
		return out
	default:
		return v
	}
}
