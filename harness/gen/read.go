package gen

import (
	"fmt"

	"verif/harness/reftok"
)

// ReadExpr is a small recursive-descent reader (one function per precedence
// level) for expression text, built on the reference tokenizer. It is used to
// turn a recorded source text back into a derivation when a violation is
// replayed, and as a cross-check of the printer.
func ReadExpr(text string) (e Expr, err error) {
	r := &reader{src: text, toks: reftok.Scan(text)}
	defer func() {
		if p := recover(); p != nil {
			if s, ok := p.(string); ok {
				e, err = nil, fmt.Errorf("%s", s)
				return
			}
			panic(p)
		}
	}()
	e = r.or()
	if r.pos != len(r.toks) {
		panic(fmt.Sprintf("trailing input at %d", r.toks[r.pos].Start))
	}
	return e, nil
}

type reader struct {
	src  string
	toks []reftok.Tok
	pos  int
}

func (r *reader) peek() reftok.Kind {
	if r.pos < len(r.toks) {
		return r.toks[r.pos].Kind
	}
	return -1
}

func (r *reader) text() string {
	t := r.toks[r.pos]
	return r.src[t.Start:t.End]
}

func (r *reader) expect(k reftok.Kind) {
	if r.peek() != k {
		panic(fmt.Sprintf("expected %s at token %d", k, r.pos))
	}
	r.pos++
}

func (r *reader) or() Expr {
	x := r.and()
	for r.peek() == reftok.Or {
		r.pos++
		x = &Binary{Op: "or", X: x, Y: r.and()}
	}
	return x
}

func (r *reader) and() Expr {
	x := r.cmp()
	for r.peek() == reftok.And {
		r.pos++
		x = &Binary{Op: "and", X: x, Y: r.cmp()}
	}
	return x
}

func (r *reader) cmp() Expr {
	x := r.add()
	for {
		switch r.peek() {
		case reftok.Eq, reftok.NE, reftok.LT, reftok.LE, reftok.GT, reftok.GE, reftok.CIEq, reftok.CINE:
			op := r.text()
			r.pos++
			x = &Binary{Op: op, X: x, Y: r.add()}
		case reftok.In:
			r.pos++
			r.expect(reftok.LParen)
			in := &In{X: x}
			for {
				in.Vals = append(in.Vals, r.or())
				if r.peek() != reftok.Comma {
					break
				}
				r.pos++
			}
			r.expect(reftok.RParen)
			x = in
		default:
			return x
		}
	}
}

func (r *reader) add() Expr {
	x := r.mul()
	for r.peek() == reftok.Plus || r.peek() == reftok.Minus {
		op := r.text()
		r.pos++
		x = &Binary{Op: op, X: x, Y: r.mul()}
	}
	return x
}

func (r *reader) mul() Expr {
	x := r.unary()
	for r.peek() == reftok.Star || r.peek() == reftok.Slash || r.peek() == reftok.Mod {
		op := r.text()
		r.pos++
		x = &Binary{Op: op, X: x, Y: r.unary()}
	}
	return x
}

func (r *reader) unary() Expr {
	if r.peek() == reftok.Plus || r.peek() == reftok.Minus {
		op := r.text()
		r.pos++
		return &Unary{Op: op, X: r.postfix()}
	}
	return r.postfix()
}

func (r *reader) postfix() Expr {
	x := r.atom()
	if r.peek() == reftok.LBracket {
		r.pos++
		i := r.or()
		r.expect(reftok.RBracket)
		return &Index{X: x, I: i}
	}
	return x
}

func (r *reader) atom() Expr {
	if r.pos >= len(r.toks) {
		panic("unexpected end of expression")
	}
	t := r.toks[r.pos]
	switch t.Kind {
	case reftok.Number:
		r.pos++
		return &Lit{Kind: Num, Text: t.Value, Value: t.Value}
	case reftok.String:
		r.pos++
		return &Lit{Kind: Str, Text: r.src[t.Start:t.End], Value: t.Value}
	case reftok.LParen:
		r.pos++
		x := r.or()
		r.expect(reftok.RParen)
		return &Paren{X: x}
	case reftok.Ident, reftok.QuotedIdent:
		if t.Kind == reftok.Ident && r.pos+1 < len(r.toks) && r.toks[r.pos+1].Kind == reftok.LParen {
			r.pos += 2
			c := &Call{Func: t.Value}
			for r.peek() != reftok.RParen {
				c.Args = append(c.Args, r.or())
				if r.peek() == reftok.Comma {
					r.pos++
					if r.peek() == reftok.RParen {
						c.TrailingComma = true
					}
				} else if r.peek() != reftok.RParen {
					panic("expected , or ) in call")
				}
			}
			r.pos++
			return c
		}
		n := &Name{}
		for {
			t := r.toks[r.pos]
			if t.Kind != reftok.Ident && t.Kind != reftok.QuotedIdent {
				panic("expected identifier")
			}
			n.Parts = append(n.Parts, Ident{Name: t.Value, Quoted: t.Kind == reftok.QuotedIdent})
			r.pos++
			if r.peek() == reftok.Dot {
				r.pos++
				continue
			}
			return n
		}
	}
	panic(fmt.Sprintf("unexpected token %s", t.Kind))
}
