package gen

import (
	"fmt"

	"verif/harness/reftok"
)

// ReadExpr is a small recursive-descent reader (one function per precedence
// level) for expression text, built on the reference tokenizer. It is used to
// turn a recorded source text back into a derivation when a violation is
// replayed, and as a cross-check of the printer.
func ReadExpr(text string) (e Expr, err error) {
	r := &reader{src: text, toks: reftok.Scan(text)}
	defer func() {
		if p := recover(); p != nil {
			if s, ok := p.(string); ok {
				e, err = nil, fmt.Errorf("%s", s)
				return
			}
			panic(p)
		}
	}()
	e = r.or()
	if r.pos != len(r.toks) {
		panic(fmt.Sprintf("trailing input at %d", r.toks[r.pos].Start))
	}
	return e, nil
}

type reader struct {
	src  string
	toks []reftok.Tok
	pos  int
}

func (r *reader) peek() reftok.Kind {
	if r.pos < len(r.toks) {
		return r.toks[r.pos].Kind
	}
	return -1
}

func (r *reader) text() string {
	t := r.toks[r.pos]
	return r.src[t.Start:t.End]
}

func (r *reader) expect(k reftok.Kind) {
	if r.peek() != k {
		panic(fmt.Sprintf("expected %s at token %d", k, r.pos))
	}
	r.pos++
}

func (r *reader) or() Expr {
	x := r.and()
	for r.peek() == reftok.Or {
		r.pos++
		x = &Binary{Op: "or", X: x, Y: r.and()}
	}
	return x
}

func (r *reader) and() Expr {
	x := r.cmp()
	for r.peek() == reftok.And {
		r.pos++
		x = &Binary{Op: "and", X: x, Y: r.cmp()}
	}
	return x
}

func (r *reader) cmp() Expr {
	x := r.add()
	for {
		switch r.peek() {
		case reftok.Eq, reftok.NE, reftok.LT, reftok.LE, reftok.GT, reftok.GE, reftok.CIEq, reftok.CINE:
			op := r.text()
			r.pos++
			x = &Binary{Op: op, X: x, Y: r.add()}
		case reftok.In:
			r.pos++
			r.expect(reftok.LParen)
			in := &In{X: x}
			for {
				in.Vals = append(in.Vals, r.or())
				if r.peek() != reftok.Comma {
					break
				}
				r.pos++
			}
			r.expect(reftok.RParen)
			x = in
		default:
			return x
		}
	}
}

func (r *reader) add() Expr {
	x := r.mul()
	for r.peek() == reftok.Plus || r.peek() == reftok.Minus {
		op := r.text()
		r.pos++
		x = &Binary{Op: op, X: x, Y: r.mul()}
	}
	return x
}

func (r *reader) mul() Expr {
	x := r.unary()
	for r.peek() == reftok.Star || r.peek() == reftok.Slash || r.peek() == reftok.Mod {
		op := r.text()
		r.pos++
		x = &Binary{Op: op, X: x, Y: r.unary()}
	}
	return x
}

func (r *reader) unary() Expr {
	if r.peek() == reftok.Plus || r.peek() == reftok.Minus {
		op := r.text()
		r.pos++
		return &Unary{Op: op, X: r.postfix()}
	}
	return r.postfix()
}

func (r *reader) postfix() Expr {
	x := r.atom()
	if r.peek() == reftok.LBracket {
		r.pos++
		i := r.or()
		r.expect(reftok.RBracket)
		return &Index{X: x, I: i}
	}
	return x
}

func (r *reader) atom() Expr {
	if r.pos >= len(r.toks) {
		panic("unexpected end of expression")
	}
	t := r.toks[r.pos]
	switch t.Kind {
	case reftok.Number:
		r.pos++
		return &Lit{Kind: Num, Text: t.Value, Value: t.Value}
	case reftok.String:
		r.pos++
		return &Lit{Kind: Str, Text: r.src[t.Start:t.End], Value: t.Value}
	case reftok.LParen:
		r.pos++
		x := r.or()
		r.expect(reftok.RParen)
		return &Paren{X: x}
	case reftok.Ident, reftok.QuotedIdent:
		if t.Kind == reftok.Ident && r.pos+1 < len(r.toks) && r.toks[r.pos+1].Kind == reftok.LParen {
			r.pos += 2
			c := &Call{Func: t.Value}
			for r.peek() != reftok.RParen {
				c.Args = append(c.Args, r.or())
				if r.peek() == reftok.Comma {
					r.pos++
					if r.peek() == reftok.RParen {
						c.TrailingComma = true
					}
				} else if r.peek() != reftok.RParen {
					panic("expected , or ) in call")
				}
			}
			r.pos++
			return c
		}
		n := &Name{}
		for {
			t := r.toks[r.pos]
			if t.Kind != reftok.Ident && t.Kind != reftok.QuotedIdent {
				panic("expected identifier")
			}
			n.Parts = append(n.Parts, Ident{Name: t.Value, Quoted: t.Kind == reftok.QuotedIdent})
			r.pos++
			if r.peek() == reftok.Dot {
				r.pos++
				continue
			}
			return n
		}
	}
	panic(fmt.Sprintf("unexpected token %s", t.Kind))
}

// ReadPipeline reads back a pipeline printed by this package (used by replays).
func ReadPipeline(text string) (p *Pipeline, err error) {
	r := &reader{src: text, toks: reftok.Scan(text)}
	defer func() {
		if x := recover(); x != nil {
			if s, ok := x.(string); ok {
				p, err = nil, fmt.Errorf("%s", s)
				return
			}
			panic(x)
		}
	}()
	p = r.pipeline()
	if r.pos != len(r.toks) {
		panic(fmt.Sprintf("trailing input at token %d", r.pos))
	}
	return p, nil
}

func (r *reader) ident() Ident {
	if r.pos >= len(r.toks) {
		panic("expected identifier at end")
	}
	t := r.toks[r.pos]
	if t.Kind != reftok.Ident && t.Kind != reftok.QuotedIdent {
		panic(fmt.Sprintf("expected identifier at token %d", r.pos))
	}
	r.pos++
	return Ident{Name: t.Value, Quoted: t.Kind == reftok.QuotedIdent}
}

func (r *reader) isWord(w string) bool {
	return r.pos < len(r.toks) && r.toks[r.pos].Kind == reftok.Ident && r.toks[r.pos].Value == w
}

func (r *reader) sortTerm() SortTerm {
	t := SortTerm{X: r.or()}
	if r.isWord("asc") || r.isWord("desc") {
		t.Dir = r.toks[r.pos].Value
		r.pos++
	}
	if r.isWord("nulls") {
		r.pos++
		t.Nulls = r.toks[r.pos].Value
		r.pos++
	}
	return t
}

// column reads [name =] expr
func (r *reader) column() Column {
	if (r.peek() == reftok.Ident || r.peek() == reftok.QuotedIdent) && r.pos+1 < len(r.toks) && r.toks[r.pos+1].Kind == reftok.Assign {
		id := r.ident()
		r.pos++
		return Column{Name: &id, X: r.or()}
	}
	return Column{X: r.or()}
}

func (r *reader) pipeline() *Pipeline {
	p := &Pipeline{Source: r.ident()}
	for r.peek() == reftok.Pipe {
		r.pos++
		if r.pos >= len(r.toks) {
			panic("operator name expected")
		}
		name := r.toks[r.pos].Value
		r.pos++
		switch name {
		case "count":
			p.Ops = append(p.Ops, &Count{})
		case "where", "filter":
			p.Ops = append(p.Ops, &Where{Kw: name, Pred: r.or()})
		case "sort", "order":
			r.expect(reftok.By)
			op := &Sort{Kw: name}
			for {
				op.Terms = append(op.Terms, r.sortTerm())
				if r.peek() != reftok.Comma {
					break
				}
				r.pos++
			}
			p.Ops = append(p.Ops, op)
		case "take", "limit":
			p.Ops = append(p.Ops, &Take{Kw: name, N: r.or()})
		case "top":
			n := r.or()
			r.expect(reftok.By)
			p.Ops = append(p.Ops, &Top{N: n, By: r.sortTerm()})
		case "project":
			op := &Project{}
			for {
				id := r.ident()
				c := Column{Name: &id}
				if r.peek() == reftok.Assign {
					r.pos++
					c.X = r.or()
				}
				op.Cols = append(op.Cols, c)
				if r.peek() != reftok.Comma {
					break
				}
				r.pos++
			}
			p.Ops = append(p.Ops, op)
		case "extend":
			op := &Extend{}
			for {
				op.Cols = append(op.Cols, r.column())
				if r.peek() != reftok.Comma {
					break
				}
				r.pos++
			}
			p.Ops = append(p.Ops, op)
		case "summarize":
			op := &Summarize{}
			for r.peek() != reftok.By && r.peek() != reftok.Pipe && r.peek() != reftok.RParen && r.pos < len(r.toks) {
				op.Cols = append(op.Cols, r.column())
				if r.peek() == reftok.Comma {
					r.pos++
					if r.peek() == reftok.By {
						op.TrailingComma = true
					}
				} else {
					break
				}
			}
			if r.peek() == reftok.By {
				r.pos++
				op.HasBy = true
				for {
					op.By = append(op.By, r.column())
					if r.peek() != reftok.Comma {
						break
					}
					r.pos++
				}
			}
			p.Ops = append(p.Ops, op)
		case "join":
			op := &Join{}
			if r.isWord("kind") {
				r.pos++
				r.expect(reftok.Assign)
				op.Kind = r.toks[r.pos].Value
				r.pos++
			}
			r.expect(reftok.LParen)
			op.Right = r.pipeline()
			r.expect(reftok.RParen)
			if !r.isWord("on") {
				panic("expected on")
			}
			r.pos++
			for {
				op.On = append(op.On, r.or())
				if r.peek() != reftok.Comma {
					break
				}
				r.pos++
			}
			p.Ops = append(p.Ops, op)
		case "as":
			p.Ops = append(p.Ops, &As{Name: r.ident()})
		case "render":
			op := &Render{Chart: r.ident()}
			if r.isWord("with") {
				r.pos++
				op.With = true
				r.expect(reftok.LParen)
				for {
					name := r.ident()
					r.expect(reftok.Assign)
					op.Props = append(op.Props, Prop{Name: name, Value: r.or()})
					if r.peek() != reftok.Comma {
						break
					}
					r.pos++
				}
				r.expect(reftok.RParen)
			}
			p.Ops = append(p.Ops, op)
		default:
			panic("unknown operator " + name)
		}
	}
	return p
}
