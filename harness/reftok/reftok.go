// Package reftok is an independent reference tokenizer for PQL, written from the
// language description (property C09) as a longest-match function over byte
// offsets. It has no cursor, no back-up and shares no code with parser/lex.go.
package reftok

import (
	"math/big"
	"strings"
	"unicode"
	"unicode/utf8"
)

type Kind int

const (
	Error Kind = iota
	Ident
	QuotedIdent
	Number
	String
	And
	Or
	In
	By
	Pipe
	Dot
	Comma
	Plus
	Minus
	Star
	Slash
	Mod
	Assign
	Eq
	NE
	LT
	LE
	GT
	GE
	CIEq
	CINE
	LParen
	RParen
	LBracket
	RBracket
	Semi
)

var kindNames = [...]string{"Error", "Ident", "QuotedIdent", "Number", "String", "And", "Or", "In", "By",
	"Pipe", "Dot", "Comma", "Plus", "Minus", "Star", "Slash", "Mod", "Assign", "Eq", "NE", "LT", "LE", "GT", "GE",
	"CIEq", "CINE", "LParen", "RParen", "LBracket", "RBracket", "Semi"}

func (k Kind) String() string { return kindNames[k] }

// Tok is one reference token. Value is defined for Ident, QuotedIdent, Number
// (the exact source spelling; compare numerically with NumValue) and String.
type Tok struct {
	Kind       Kind
	Start, End int
	Value      string
}

func isAlpha(b byte) bool { return 'a' <= b && b <= 'z' || 'A' <= b && b <= 'Z' }
func isDigit(b byte) bool { return '0' <= b && b <= '9' }
func isHex(b byte) bool   { return isDigit(b) || 'a' <= b && b <= 'f' || 'A' <= b && b <= 'F' }

// SkipBlank returns the offset of the first byte at or after off that is neither
// white space nor part of a // comment.
func SkipBlank(s string, off int) int {
	for off < len(s) {
		if s[off] == '/' && off+1 < len(s) && s[off+1] == '/' {
			nl := strings.IndexByte(s[off:], '\n')
			if nl < 0 {
				return len(s)
			}
			off += nl + 1
			continue
		}
		r, n := utf8.DecodeRuneInString(s[off:])
		if r == utf8.RuneError && n <= 1 {
			return off
		}
		if !unicode.IsSpace(r) {
			return off
		}
		off += n
	}
	return off
}

// Scan tokenizes the whole source.
func Scan(s string) []Tok {
	var out []Tok
	off := 0
	for {
		off = SkipBlank(s, off)
		if off >= len(s) {
			return out
		}
		t := at(s, off)
		out = append(out, t)
		off = t.End
	}
}

// digitsEnd returns the end of the maximal run of decimal digits starting at i.
func digitsEnd(s string, i int) int {
	for i < len(s) && isDigit(s[i]) {
		i++
	}
	return i
}

// exponentEnd returns the end of a complete exponent starting at i, or i.
func exponentEnd(s string, i int) int {
	if i >= len(s) || (s[i] != 'e' && s[i] != 'E') {
		return i
	}
	j := i + 1
	if j < len(s) && (s[j] == '+' || s[j] == '-') {
		j++
	}
	k := digitsEnd(s, j)
	if k == j {
		return i
	}
	return k
}

func at(s string, i int) Tok {
	b := s[i]
	switch {
	case isAlpha(b) || b == '_' || b == '$':
		j := i + 1
		for j < len(s) && (isAlpha(s[j]) || isDigit(s[j]) || s[j] == '_') {
			j++
		}
		w := s[i:j]
		switch w {
		case "and":
			return Tok{Kind: And, Start: i, End: j}
		case "or":
			return Tok{Kind: Or, Start: i, End: j}
		case "in":
			return Tok{Kind: In, Start: i, End: j}
		case "by":
			return Tok{Kind: By, Start: i, End: j}
		}
		return Tok{Kind: Ident, Start: i, End: j, Value: w}
	case b == '0' && i+1 < len(s) && (s[i+1] == 'x' || s[i+1] == 'X'):
		j := i + 2
		for j < len(s) && isHex(s[j]) {
			j++
		}
		if j == i+2 {
			return Tok{Kind: Error, Start: i, End: i + 2}
		}
		v := new(big.Int)
		v.SetString(s[i+2:j], 16)
		if v.BitLen() > 64 {
			return Tok{Kind: Error, Start: i, End: j}
		}
		return Tok{Kind: Number, Start: i, End: j, Value: s[i:j]}
	case isDigit(b):
		j := digitsEnd(s, i)
		if j < len(s) && s[j] == '.' {
			j = digitsEnd(s, j+1)
		}
		j = exponentEnd(s, j)
		return Tok{Kind: Number, Start: i, End: j, Value: s[i:j]}
	case b == '.':
		if i+1 < len(s) && isDigit(s[i+1]) {
			j := digitsEnd(s, i+1)
			j = exponentEnd(s, j)
			return Tok{Kind: Number, Start: i, End: j, Value: s[i:j]}
		}
		return Tok{Kind: Dot, Start: i, End: i + 1}
	case b == '\'' || b == '"':
		var val []byte
		j := i + 1
		for {
			if j >= len(s) {
				return Tok{Kind: Error, Start: i, End: j}
			}
			c := s[j]
			switch {
			case c == b:
				return Tok{Kind: String, Start: i, End: j + 1, Value: string(val)}
			case c == '\n':
				return Tok{Kind: Error, Start: i, End: j}
			case c == '\\':
				if j+1 >= len(s) {
					return Tok{Kind: Error, Start: i, End: j + 1}
				}
				e := s[j+1]
				switch e {
				case '\n':
					return Tok{Kind: Error, Start: i, End: j + 1}
				case 'n':
					val = append(val, '\n')
					j += 2
				case 't':
					val = append(val, '\t')
					j += 2
				default:
					// the escaped character stands for itself, copied bytewise
					_, n := utf8.DecodeRuneInString(s[j+1:])
					val = append(val, s[j+1:j+1+n]...)
					j += 1 + n
				}
			default:
				val = append(val, c)
				j++
			}
		}
	case b == '`':
		var val []byte
		j := i + 1
		for {
			if j >= len(s) {
				return Tok{Kind: Error, Start: i, End: j}
			}
			c := s[j]
			switch {
			case c == '`':
				if j+1 < len(s) && s[j+1] == '`' {
					val = append(val, '`')
					j += 2
					continue
				}
				return Tok{Kind: QuotedIdent, Start: i, End: j + 1, Value: string(val)}
			case c == '\n':
				return Tok{Kind: Error, Start: i, End: j}
			default:
				val = append(val, c)
				j++
			}
		}
	}
	two := func(k Kind) Tok { return Tok{Kind: k, Start: i, End: i + 2} }
	one := func(k Kind) Tok { return Tok{Kind: k, Start: i, End: i + 1} }
	next := byte(0)
	if i+1 < len(s) {
		next = s[i+1]
	}
	switch b {
	case ',':
		return one(Comma)
	case '|':
		return one(Pipe)
	case '(':
		return one(LParen)
	case ')':
		return one(RParen)
	case '[':
		return one(LBracket)
	case ']':
		return one(RBracket)
	case '+':
		return one(Plus)
	case '-':
		return one(Minus)
	case '*':
		return one(Star)
	case '/':
		return one(Slash) // "//" was consumed by SkipBlank
	case '%':
		return one(Mod)
	case ';':
		return one(Semi)
	case '=':
		if next == '=' {
			return two(Eq)
		}
		if next == '~' {
			return two(CIEq)
		}
		return one(Assign)
	case '!':
		if next == '=' {
			return two(NE)
		}
		if next == '~' {
			return two(CINE)
		}
		return one(Error)
	case '<':
		if next == '=' {
			return two(LE)
		}
		return one(LT)
	case '>':
		if next == '=' {
			return two(GE)
		}
		return one(GT)
	}
	// one unrecognisable piece: a whole rune, or one byte of invalid UTF-8
	_, n := utf8.DecodeRuneInString(s[i:])
	return Tok{Kind: Error, Start: i, End: i + n}
}

// NumValue returns the exact rational value of a PQL number spelling
// (decimal, fraction, exponent or hexadecimal), or nil if exponent is absurdly large.
func NumValue(lexeme string) *big.Rat {
	if len(lexeme) > 2 && (lexeme[1] == 'x' || lexeme[1] == 'X') {
		v := new(big.Int)
		if _, ok := v.SetString(lexeme[2:], 16); !ok {
			return nil
		}
		return new(big.Rat).SetInt(v)
	}
	return DecValue(lexeme)
}

// DecValue parses digits[.digits][e[+-]digits] exactly (also ".5", "1.", "1.e3").
func DecValue(s string) *big.Rat {
	mant := s
	exp := 0
	if k := strings.IndexAny(s, "eE"); k >= 0 {
		mant = s[:k]
		es := s[k+1:]
		neg := false
		if len(es) > 0 && (es[0] == '+' || es[0] == '-') {
			neg = es[0] == '-'
			es = es[1:]
		}
		if es == "" || len(es) > 6 {
			if es == "" {
				return nil
			}
			// very large exponents: clamp (values compare equal only if spelled equal)
			es = es[len(es)-6:]
		}
		for _, c := range []byte(es) {
			if !isDigit(c) {
				return nil
			}
			exp = exp*10 + int(c-'0')
		}
		if neg {
			exp = -exp
		}
	}
	intPart, frac := mant, ""
	if k := strings.IndexByte(mant, '.'); k >= 0 {
		intPart, frac = mant[:k], mant[k+1:]
	}
	if intPart == "" && frac == "" {
		return nil
	}
	digits := intPart + frac
	for _, c := range []byte(digits) {
		if !isDigit(c) {
			return nil
		}
	}
	n := new(big.Int)
	if digits != "" {
		n.SetString(digits, 10)
	}
	exp -= len(frac)
	r := new(big.Rat).SetInt(n)
	if exp != 0 {
		p := new(big.Int).Exp(big.NewInt(10), big.NewInt(int64(abs(exp))), nil)
		if exp > 0 {
			r.Mul(r, new(big.Rat).SetInt(p))
		} else {
			r.Quo(r, new(big.Rat).SetInt(p))
		}
	}
	return r
}

func abs(x int) int {
	if x < 0 {
		return -x
	}
	return x
}

// IsIntegerSpelling reports whether a number lexeme is an integer literal.
func IsIntegerSpelling(lexeme string) bool {
	if len(lexeme) > 2 && (lexeme[1] == 'x' || lexeme[1] == 'X') {
		return true
	}
	return !strings.ContainsAny(lexeme, ".eE")
}
