// Package rel holds the two relational evaluators of C02/C03: RunSQL evaluates
// the statement read by sqlx with list semantics; RunPipeline interprets the
// generator's pipeline operator by operator, left to right. They share only the
// scalar primitives of package sem.
package rel

import (
	"fmt"
	"sort"
	"strings"

	"verif/harness/gen"
	"verif/harness/sem"
	"verif/harness/sqlx"
)

type Table struct {
	Cols []string
	Rows [][]sem.Val
	// Keys, when non-nil, holds for every row the sort key tuple that determines
	// its position (set by the last sort; cleared by order-destroying operators).
	Keys [][]sortKey
}

type sortKey struct {
	v          sem.Val
	desc       bool
	nullsFirst bool
}

type DB map[string]*Table

func (t *Table) String() string {
	var sb strings.Builder
	sb.WriteString("(" + strings.Join(t.Cols, ", ") + ")")
	for _, r := range t.Rows {
		var p []string
		for _, v := range r {
			p = append(p, v.String())
		}
		sb.WriteString(" [" + strings.Join(p, " ") + "]")
	}
	return sb.String()
}

type evalError struct{ msg string }

func (e *evalError) Error() string { return e.msg }

func fail(format string, args ...any) { panic(&evalError{fmt.Sprintf(format, args...)}) }

func catch(err *error) {
	if r := recover(); r != nil {
		if e, ok := r.(*evalError); ok {
			*err = e
			return
		}
		panic(r)
	}
}

// ---------- shared helpers ----------

func compareKeys(a, b []sortKey) int {
	for i := range a {
		x, y := a[i], b[i]
		if x.v.K == sem.Null || y.v.K == sem.Null {
			if x.v.K == sem.Null && y.v.K == sem.Null {
				continue
			}
			first := x.v.K == sem.Null
			if x.nullsFirst == first {
				return -1
			}
			return 1
		}
		c, ok := sem.SortCompare(x.v, y.v)
		if !ok {
			fail("sort keys of different types: %s vs %s", x.v, y.v)
		}
		if c == 0 {
			continue
		}
		if x.desc {
			c = -c
		}
		return c
	}
	return 0
}

func sortRows(t *Table, keys [][]sortKey) *Table {
	idx := make([]int, len(t.Rows))
	for i := range idx {
		idx[i] = i
	}
	for _, ks := range keys {
		for _, k := range ks {
			if k.v.K == sem.Err || k.v.K == sem.Unspec {
				fail("sort key is %s", k.v)
			}
		}
	}
	sort.SliceStable(idx, func(i, j int) bool { return compareKeys(keys[idx[i]], keys[idx[j]]) < 0 })
	out := &Table{Cols: t.Cols}
	for _, i := range idx {
		out.Rows = append(out.Rows, t.Rows[i])
		out.Keys = append(out.Keys, keys[i])
	}
	return out
}

func limitVal(v sem.Val) int {
	if v.K != sem.Num || v.N < 0 || v.N != float64(int(v.N)) {
		fail("row count is %s", v)
	}
	return int(v.N)
}

// ---------- SQL ----------

type sqlEval struct {
	db   DB
	ctes map[string]*Table
	in   *sem.Interner
}

// RunSQL evaluates a parsed statement.
func RunSQL(st *sqlx.Stmt, db DB, in *sem.Interner) (t *Table, err error) {
	defer catch(&err)
	ev := &sqlEval{db: db, ctes: map[string]*Table{}, in: in}
	for _, c := range st.CTEs {
		ev.ctes[c.Name] = ev.sel(c.Q)
	}
	return ev.sel(st.Q), nil
}

// binding row: values addressable by bare name and by alias.name
type bound struct {
	cols  []string // bare names in order
	quals []string // qualifier per column ("" if none)
	vals  []sem.Val
}

func (b *bound) env() sem.Env {
	env := sem.Env{}
	count := map[string]int{}
	for _, c := range b.cols {
		count[c]++
	}
	for i, c := range b.cols {
		if count[c] == 1 {
			env[c] = b.vals[i]
		} else if _, ok := env[c]; !ok {
			env[c] = sem.E("ambiguous column " + c)
		}
		if b.quals[i] != "" {
			env[b.quals[i]+"."+c] = b.vals[i]
		}
	}
	return env
}

func (ev *sqlEval) source(s *sqlx.Source) (*Table, string) {
	var t *Table
	if s.Sub != nil {
		t = ev.sel(s.Sub)
	} else if c, ok := ev.ctes[s.Table]; ok {
		t = c
	} else if d, ok := ev.db[s.Table]; ok {
		t = d
	} else {
		fail("unknown table %q", s.Table)
	}
	q := ""
	if s.HasAlias {
		q = s.Alias
	} else if s.Sub == nil {
		q = s.Table
	}
	return t, q
}

var aggNames = map[string]bool{"count": true, "countif": true, "sum": true, "min": true, "max": true, "avg": true, "any": true, "uniq": true, "dcount": true}

func isAggFunc(f *sqlx.Func) bool {
	return aggNames[strings.ToLower(f.Name)] || f.Filter != nil
}

func hasAgg(e sqlx.Expr) bool {
	found := false
	var rec func(e sqlx.Expr)
	rec = func(e sqlx.Expr) {
		switch e := e.(type) {
		case *sqlx.Func:
			if isAggFunc(e) {
				found = true
			}
			for _, a := range e.Args {
				rec(a)
			}
		case *sqlx.Unary:
			rec(e.X)
		case *sqlx.Binary:
			rec(e.X)
			rec(e.Y)
		case *sqlx.IsNull:
			rec(e.X)
		case *sqlx.InList:
			rec(e.X)
			for _, v := range e.Vals {
				rec(v)
			}
		case *sqlx.Case:
			for _, w := range e.Whens {
				rec(w.Cond)
				rec(w.Val)
			}
			if e.Else != nil {
				rec(e.Else)
			}
		case *sqlx.Index:
			rec(e.X)
			rec(e.I)
		}
	}
	rec(e)
	return found
}

func (ev *sqlEval) sel(q *sqlx.Select) *Table {
	left, lq := ev.source(q.From)
	var rows []*bound
	if q.Join == nil {
		for _, r := range left.Rows {
			b := &bound{cols: left.Cols, vals: r, quals: make([]string, len(left.Cols))}
			for i := range b.quals {
				b.quals[i] = lq
			}
			rows = append(rows, b)
		}
	} else {
		right, rq := ev.source(q.Join.Right)
		cols := append(append([]string{}, left.Cols...), right.Cols...)
		quals := make([]string, 0, len(cols))
		for range left.Cols {
			quals = append(quals, lq)
		}
		for range right.Cols {
			quals = append(quals, rq)
		}
		for _, l := range left.Rows {
			matched := false
			for _, r := range right.Rows {
				b := &bound{cols: cols, quals: quals, vals: append(append([]sem.Val{}, l...), r...)}
				ctx := &sem.Ctx{Env: b.env(), In: ev.in}
				v := ctx.SQL(q.Join.On)
				if v.K == sem.Err || v.K == sem.Unspec {
					fail("join condition evaluates to %s", v)
				}
				if sem.IsTrue(v) {
					matched = true
					rows = append(rows, b)
				}
			}
			if !matched && q.Join.Kind == "LEFT" {
				vals := append([]sem.Val{}, l...)
				for range right.Cols {
					vals = append(vals, sem.VNull)
				}
				rows = append(rows, &bound{cols: cols, quals: quals, vals: vals})
			}
		}
		left = &Table{Cols: cols}
	}
	srcCols := left.Cols
	// WHERE
	if q.Where != nil {
		var kept []*bound
		for _, b := range rows {
			ctx := &sem.Ctx{Env: b.env(), In: ev.in}
			v := ctx.SQL(q.Where)
			if v.K == sem.Err || v.K == sem.Unspec {
				fail("WHERE evaluates to %s", v)
			}
			if sem.IsTrue(v) {
				kept = append(kept, b)
			}
		}
		rows = kept
	}
	// grouping
	grouped := len(q.GroupBy) > 0
	for _, it := range q.Items {
		if !it.Star && hasAgg(it.X) {
			grouped = true
		}
	}
	out := &Table{}
	type outRow struct {
		vals []sem.Val
		env  sem.Env // source env for ORDER BY
	}
	var outs []outRow
	project := func(env sem.Env, b *bound, agg func(f *sqlx.Func) (sem.Val, bool)) []sem.Val {
		var vals []sem.Val
		for _, it := range q.Items {
			if it.Star {
				if b == nil {
					fail("SELECT * in an aggregate query")
				}
				vals = append(vals, b.vals...)
				continue
			}
			ctx := &sem.Ctx{Env: env, In: ev.in, Agg: agg}
			v := ctx.SQL(it.X)
			if v.K == sem.Err || v.K == sem.Unspec {
				fail("select item %s evaluates to %s", sqlx.Format(it.X), v)
			}
			vals = append(vals, v)
		}
		return vals
	}
	for _, it := range q.Items {
		if it.Star {
			out.Cols = append(out.Cols, srcCols...)
		} else if it.HasAlias {
			out.Cols = append(out.Cols, it.Alias)
		} else {
			out.Cols = append(out.Cols, sqlx.Format(it.X))
		}
	}
	if grouped {
		type group struct {
			rows []*bound
		}
		var groups []*group
		index := map[string]*group{}
		if len(q.GroupBy) == 0 {
			g := &group{rows: rows}
			groups = append(groups, g)
		} else {
			for _, b := range rows {
				ctx := &sem.Ctx{Env: b.env(), In: ev.in}
				var key []sem.Val
				for _, k := range q.GroupBy {
					v := ctx.SQL(k)
					if v.K == sem.Err || v.K == sem.Unspec {
						fail("group key evaluates to %s", v)
					}
					key = append(key, v)
				}
				ks := sem.Key(key)
				g := index[ks]
				if g == nil {
					g = &group{}
					index[ks] = g
					groups = append(groups, g)
				}
				g.rows = append(g.rows, b)
			}
		}
		for _, g := range groups {
			g := g
			var env sem.Env
			if len(g.rows) > 0 {
				env = g.rows[0].env()
			} else {
				env = sem.Env{}
			}
			agg := func(f *sqlx.Func) (sem.Val, bool) {
				if !isAggFunc(f) {
					return sem.Val{}, false
				}
				name := strings.ToLower(f.Name)
				var argRows [][]sem.Val
				var filt []sem.Val
				for _, b := range g.rows {
					ctx := &sem.Ctx{Env: b.env(), In: ev.in}
					var a []sem.Val
					for _, x := range f.Args {
						a = append(a, ctx.SQL(x))
					}
					if f.Filter != nil {
						fv := ctx.SQL(f.Filter)
						filt = append(filt, fv)
						if !sem.IsTrue(fv) {
							if fv.K == sem.Err || fv.K == sem.Unspec || (fv.K != sem.Null && fv.K != sem.Num) {
								return sem.E("type"), true
							}
							continue
						}
					}
					argRows = append(argRows, a)
				}
				col := func() []sem.Val {
					var c []sem.Val
					for _, a := range argRows {
						if len(a) != 1 {
							fail("aggregate %s with %d arguments", f.Name, len(a))
						}
						c = append(c, a[0])
					}
					return c
				}
				switch {
				case name == "count" && (len(f.Args) == 0 || f.Star):
					return sem.AggCount(len(argRows)), true
				case name == "countif" && len(f.Args) == 1:
					return sem.AggCountIf(col()), true
				case name == "sum" && len(f.Args) == 1:
					return sem.AggSum(col()), true
				case name == "min" && len(f.Args) == 1:
					return sem.AggMinMax(col(), false), true
				case name == "max" && len(f.Args) == 1:
					return sem.AggMinMax(col(), true), true
				}
				return ev.in.AggOpaque(f.Name, argRows), true
			}
			outs = append(outs, outRow{vals: project(env, nil, agg), env: env})
		}
	} else {
		for _, b := range rows {
			env := b.env()
			outs = append(outs, outRow{vals: project(env, b, nil), env: env})
		}
	}
	if q.Distinct {
		seen := map[string]bool{}
		var d []outRow
		for _, o := range outs {
			k := sem.Key(o.vals)
			if !seen[k] {
				seen[k] = true
				d = append(d, o)
			}
		}
		outs = d
	}
	for _, o := range outs {
		out.Rows = append(out.Rows, o.vals)
	}
	// ORDER BY: output aliases first, then source columns
	if len(q.OrderBy) > 0 {
		// A name inside a compound ORDER BY expression that is both an output alias and
		// a different source column is resolved differently by different dialects.
		aliasExpr := map[string]sqlx.Expr{}
		for _, it := range q.Items {
			if !it.Star && it.HasAlias {
				aliasExpr[it.Alias] = it.X
			}
		}
		isSrc := map[string]bool{}
		for _, c := range srcCols {
			isSrc[c] = true
		}
		for _, ob := range q.OrderBy {
			if _, bare := ob.X.(*sqlx.Ident); bare || grouped {
				// in an aggregate query only the alias is a valid reference
				continue
			}
			forEachIdent(ob.X, func(id *sqlx.Ident) {
				if len(id.Parts) != 1 {
					return
				}
				n := id.Parts[0].Name
				x, isAlias := aliasExpr[n]
				if !isAlias || !isSrc[n] {
					return
				}
				if same, ok := x.(*sqlx.Ident); ok && len(same.Parts) == 1 && same.Parts[0].Name == n {
					return
				}
				fail("ORDER BY expression %s uses %q, which is both an output alias and a different source column (dialect-dependent)", sqlx.Format(ob.X), n)
			})
		}
		keys := make([][]sortKey, len(outs))
		for i, o := range outs {
			env := sem.Env{}
			for k, v := range o.env {
				env[k] = v
			}
			cnt := map[string]int{}
			for _, c := range out.Cols {
				cnt[c]++
			}
			for ci, c := range out.Cols {
				if cnt[c] == 1 {
					env[c] = o.vals[ci]
				}
			}
			// an explicit alias that repeats the name of a source column (SELECT *, e AS "y" ... ORDER BY "y"):
			// the target dialect resolves the name in ORDER BY to the alias
			for ci, c := range out.Cols {
				if _, explicit := aliasExpr[c]; explicit && cnt[c] > 1 {
					env[c] = o.vals[ci] // the alias column comes after the star columns: the last one wins
				}
			}
			ctx := &sem.Ctx{Env: env, In: ev.in}
			for _, ob := range q.OrderBy {
				k := sortKey{v: ctx.SQL(ob.X), desc: ob.Desc, nullsFirst: ob.NullsFirst}
				if !ob.HasNulls {
					k.nullsFirst = false
				}
				keys[i] = append(keys[i], k)
			}
		}
		out = sortRows(out, keys)
	}
	if q.Limit != nil {
		ctx := &sem.Ctx{Env: sem.Env{}, In: ev.in}
		n := limitVal(ctx.SQL(q.Limit))
		if n < len(out.Rows) {
			out.Rows = out.Rows[:n]
			if out.Keys != nil {
				out.Keys = out.Keys[:n]
			}
		}
	}
	out.Keys = nil
	return out
}

// ---------- pipeline ----------

type pipeEval struct {
	db DB
	in *sem.Interner
	// named holds the results that `as NAME` operators have named so far; later
	// right-hand pipelines may read them like tables.
	named map[string]*Table
}

// RunPipeline interprets the derivation left to right.
func RunPipeline(p *gen.Pipeline, db DB, in *sem.Interner) (t *Table, err error) {
	defer catch(&err)
	ev := &pipeEval{db: db, in: in, named: map[string]*Table{}}
	return ev.pipeline(p), nil
}

func rowEnv(cols []string, vals []sem.Val) sem.Env {
	env := sem.Env{}
	count := map[string]int{}
	for _, c := range cols {
		count[c]++
	}
	for i, c := range cols {
		if count[c] == 1 {
			env[c] = vals[i]
		} else if _, ok := env[c]; !ok {
			env[c] = sem.E("ambiguous column " + c)
		}
	}
	return env
}

func (ev *pipeEval) scalar(e gen.Expr, env sem.Env, what string) sem.Val {
	ctx := &sem.Ctx{Env: env, In: ev.in}
	v := ctx.PQL(e)
	if v.K == sem.Err || v.K == sem.Unspec {
		fail("%s %s evaluates to %s", what, gen.ExprText(e), v)
	}
	return v
}

func pqlHasAgg(e gen.Expr) bool {
	found := false
	var rec func(e gen.Expr)
	rec = func(e gen.Expr) {
		switch e := e.(type) {
		case *gen.Call:
			if aggNames[e.Func] {
				found = true
			}
			for _, a := range e.Args {
				rec(a)
			}
		case *gen.Paren:
			rec(e.X)
		case *gen.Unary:
			rec(e.X)
		case *gen.Binary:
			rec(e.X)
			rec(e.Y)
		case *gen.In:
			rec(e.X)
			for _, v := range e.Vals {
				rec(v)
			}
		case *gen.Index:
			rec(e.X)
			rec(e.I)
		}
	}
	rec(e)
	return found
}

func colName(c gen.Column) string {
	if c.Name != nil {
		return c.Name.Name
	}
	return gen.ExprText(c.X)
}

func (ev *pipeEval) sortBy(t *Table, terms []gen.SortTerm) *Table {
	keys := make([][]sortKey, len(t.Rows))
	for i, r := range t.Rows {
		env := rowEnv(t.Cols, r)
		for _, term := range terms {
			k := sortKey{v: ev.scalar(term.X, env, "sort key")}
			// defaults: descending, nulls last; ascending puts nulls first unless stated
			k.desc = term.Dir != "asc"
			k.nullsFirst = term.Dir == "asc"
			switch term.Nulls {
			case "first":
				k.nullsFirst = true
			case "last":
				k.nullsFirst = false
			}
			keys[i] = append(keys[i], k)
		}
	}
	return sortRows(t, keys)
}

func (ev *pipeEval) take(t *Table, n gen.Expr) *Table {
	k := limitVal(ev.scalar(n, sem.Env{}, "row count"))
	out := &Table{Cols: t.Cols, Rows: t.Rows, Keys: t.Keys}
	if k < len(t.Rows) {
		out.Rows = t.Rows[:k]
		if t.Keys != nil {
			out.Keys = t.Keys[:k]
		}
	}
	return out
}

func (ev *pipeEval) pipeline(p *gen.Pipeline) *Table {
	base, ok := ev.named[p.Source.Name]
	if !ok {
		base, ok = ev.db[p.Source.Name]
	}
	if !ok {
		fail("unknown table %q", p.Source.Name)
	}
	t := &Table{Cols: base.Cols, Rows: base.Rows}
	for _, op := range p.Ops {
		switch op := op.(type) {
		case *gen.Where:
			out := &Table{Cols: t.Cols}
			for i, r := range t.Rows {
				if sem.IsTrue(ev.scalar(op.Pred, rowEnv(t.Cols, r), "predicate")) {
					out.Rows = append(out.Rows, r)
					if t.Keys != nil {
						out.Keys = append(out.Keys, t.Keys[i])
					}
				}
			}
			t = out
		case *gen.Project:
			out := &Table{Keys: t.Keys}
			for _, c := range op.Cols {
				out.Cols = append(out.Cols, c.Name.Name)
			}
			for _, r := range t.Rows {
				env := rowEnv(t.Cols, r)
				var vals []sem.Val
				for _, c := range op.Cols {
					x := c.X
					if x == nil {
						x = &gen.Name{Parts: []gen.Ident{*c.Name}}
					}
					vals = append(vals, ev.scalar(x, env, "project expression"))
				}
				out.Rows = append(out.Rows, vals)
			}
			t = out
		case *gen.Extend:
			out := &Table{Cols: append([]string{}, t.Cols...), Keys: t.Keys}
			for _, c := range op.Cols {
				out.Cols = append(out.Cols, colName(c))
			}
			for _, r := range t.Rows {
				env := rowEnv(t.Cols, r)
				vals := append([]sem.Val{}, r...)
				for _, c := range op.Cols {
					vals = append(vals, ev.scalar(c.X, env, "extend expression"))
				}
				out.Rows = append(out.Rows, vals)
			}
			t = out
		case *gen.Summarize:
			t = ev.summarize(t, op)
		case *gen.Sort:
			t = ev.sortBy(t, op.Terms)
		case *gen.Take:
			t = ev.take(t, op.N)
		case *gen.Top:
			t = ev.take(ev.sortBy(t, []gen.SortTerm{op.By}), op.N)
		case *gen.Count:
			t = &Table{Cols: []string{"count()"}, Rows: [][]sem.Val{{sem.N(float64(len(t.Rows)))}}}
		case *gen.As:
			// names the result; rows and columns unchanged
			ev.named[op.Name.Name] = &Table{Cols: t.Cols, Rows: t.Rows}
		case *gen.Render:
			out := &Table{Cols: append([]string{}, t.Cols...), Keys: t.Keys}
			out.Cols = append(out.Cols, "render_type")
			extra := []sem.Val{sem.S(op.Chart.Name)}
			for _, pr := range op.Props {
				out.Cols = append(out.Cols, "render_prop_"+pr.Name.Name)
				switch v := pr.Value.(type) {
				case *gen.Lit:
					extra = append(extra, sem.S(v.Value))
				case *gen.Name:
					extra = append(extra, sem.S(v.Parts[0].Name))
				default:
					fail("render property value %s is not a literal or a name", gen.ExprText(pr.Value))
				}
			}
			for _, r := range t.Rows {
				out.Rows = append(out.Rows, append(append([]sem.Val{}, r...), extra...))
			}
			t = out
		case *gen.Join:
			t = ev.join(t, op)
		default:
			fail("unknown operator %T", op)
		}
	}
	return t
}

func (ev *pipeEval) summarize(t *Table, op *gen.Summarize) *Table {
	out := &Table{}
	for _, c := range op.By {
		out.Cols = append(out.Cols, colName(c))
	}
	for _, c := range op.Cols {
		out.Cols = append(out.Cols, colName(c))
	}
	type group struct {
		key  []sem.Val
		rows [][]sem.Val
	}
	var groups []*group
	if len(op.By) == 0 {
		groups = []*group{{rows: t.Rows}}
	} else {
		index := map[string]*group{}
		for _, r := range t.Rows {
			env := rowEnv(t.Cols, r)
			var key []sem.Val
			for _, c := range op.By {
				key = append(key, ev.scalar(c.X, env, "group key"))
			}
			ks := sem.Key(key)
			g := index[ks]
			if g == nil {
				g = &group{key: key}
				index[ks] = g
				groups = append(groups, g)
			}
			g.rows = append(g.rows, r)
		}
	}
	for _, g := range groups {
		g := g
		vals := append([]sem.Val{}, g.key...)
		env := sem.Env{}
		if len(g.rows) > 0 {
			env = rowEnv(t.Cols, g.rows[0])
		}
		agg := func(c *gen.Call) (sem.Val, bool) {
			if !aggNames[c.Func] {
				return sem.Val{}, false
			}
			var argRows [][]sem.Val
			for _, r := range g.rows {
				ctx := &sem.Ctx{Env: rowEnv(t.Cols, r), In: ev.in}
				var a []sem.Val
				for _, x := range c.Args {
					a = append(a, ctx.PQL(x))
				}
				argRows = append(argRows, a)
			}
			col := func() []sem.Val {
				var out []sem.Val
				for _, a := range argRows {
					out = append(out, a[0])
				}
				return out
			}
			switch {
			case c.Func == "count" && len(c.Args) == 0:
				return sem.AggCount(len(g.rows)), true
			case c.Func == "countif" && len(c.Args) == 1:
				return sem.AggCountIf(col()), true
			case c.Func == "sum" && len(c.Args) == 1:
				return sem.AggSum(col()), true
			case c.Func == "min" && len(c.Args) == 1:
				return sem.AggMinMax(col(), false), true
			case c.Func == "max" && len(c.Args) == 1:
				return sem.AggMinMax(col(), true), true
			}
			return ev.in.AggOpaque(c.Func, argRows), true
		}
		for _, c := range op.Cols {
			ctx := &sem.Ctx{Env: env, In: ev.in, AggPQL: agg}
			v := ctx.PQL(c.X)
			if v.K == sem.Err || v.K == sem.Unspec {
				fail("aggregate %s evaluates to %s", gen.ExprText(c.X), v)
			}
			vals = append(vals, v)
		}
		out.Rows = append(out.Rows, vals)
	}
	return out
}

func (ev *pipeEval) join(left *Table, op *gen.Join) *Table {
	right := ev.pipeline(op.Right)
	kind := op.Kind
	if kind == "" {
		kind = "innerunique"
	}
	lrows := left.Rows
	if kind == "innerunique" {
		seen := map[string]bool{}
		lrows = nil
		for _, r := range left.Rows {
			k := sem.Key(r)
			if !seen[k] {
				seen[k] = true
				lrows = append(lrows, r)
			}
		}
	}
	out := &Table{Cols: append(append([]string{}, left.Cols...), right.Cols...)}
	for _, l := range lrows {
		matched := false
		for _, r := range right.Rows {
			env := sem.Env{}
			lc, rc := map[string]int{}, map[string]int{}
			for _, c := range left.Cols {
				lc[c]++
			}
			for _, c := range right.Cols {
				rc[c]++
			}
			for i, c := range left.Cols {
				if lc[c] == 1 {
					env["$left."+c] = l[i]
					if rc[c] == 0 {
						env[c] = l[i]
					} else {
						env[c] = sem.E("ambiguous column " + c)
					}
				}
			}
			for i, c := range right.Cols {
				if rc[c] == 1 {
					env["$right."+c] = r[i]
					if lc[c] == 0 {
						env[c] = r[i]
					}
				}
			}
			ok := true
			for _, cond := range op.On {
				var v sem.Val
				if n, isName := cond.(*gen.Name); isName && len(n.Parts) == 1 && !n.Parts[0].Quoted {
					// a bare column name k means $left.k == $right.k
					a, aok := env["$left."+n.Parts[0].Name]
					b, bok := env["$right."+n.Parts[0].Name]
					if !aok || !bok {
						fail("join column %s missing on one side", n.Parts[0].Name)
					}
					v = sem.Compare("=", a, b)
				} else {
					ctx := &sem.Ctx{Env: env, In: ev.in}
					v = ctx.PQL(cond)
				}
				if v.K == sem.Err || v.K == sem.Unspec {
					fail("join condition %s evaluates to %s", gen.ExprText(cond), v)
				}
				if !sem.IsTrue(v) {
					ok = false // keep evaluating: an ill-typed later condition makes the program undefined, as in SQL's AND
				}
			}
			if ok {
				matched = true
				out.Rows = append(out.Rows, append(append([]sem.Val{}, l...), r...))
			}
		}
		if !matched && kind == "leftouter" {
			vals := append([]sem.Val{}, l...)
			for range right.Cols {
				vals = append(vals, sem.VNull)
			}
			out.Rows = append(out.Rows, vals)
		}
	}
	return out
}

// ---------- comparison ----------

// Compare returns "" when got is an acceptable result for want: same columns,
// same rows as a multiset, and the same order wherever want's order is determined
// by a sort (rows with equal sort keys may appear in any order).
func Compare(want, got *Table) string {
	if len(want.Cols) != len(got.Cols) {
		return fmt.Sprintf("columns differ: want %v, got %v", want.Cols, got.Cols)
	}
	for i := range want.Cols {
		if want.Cols[i] != got.Cols[i] {
			return fmt.Sprintf("columns differ: want %v, got %v", want.Cols, got.Cols)
		}
	}
	if len(want.Rows) != len(got.Rows) {
		return fmt.Sprintf("row count differs: want %d rows %s, got %d rows %s", len(want.Rows), want, len(got.Rows), got)
	}
	same := true
	for i := range want.Rows {
		if sem.Key(want.Rows[i]) != sem.Key(got.Rows[i]) {
			same = false
			break
		}
	}
	if same {
		return ""
	}
	// multiset comparison
	cnt := map[string]int{}
	for _, r := range want.Rows {
		cnt[sem.Key(r)]++
	}
	for _, r := range got.Rows {
		cnt[sem.Key(r)]--
	}
	for _, c := range cnt {
		if c != 0 {
			return fmt.Sprintf("rows differ: want %s, got %s", want, got)
		}
	}
	if want.Keys == nil {
		return "" // no sort determines the order
	}
	// order: got must be non-decreasing in want's sort keys; match rows by content
	pool := map[string][][]sortKey{}
	for i, r := range want.Rows {
		k := sem.Key(r)
		pool[k] = append(pool[k], want.Keys[i])
	}
	var prev []sortKey
	for _, r := range got.Rows {
		k := sem.Key(r)
		ks := pool[k][0]
		pool[k] = pool[k][1:]
		if prev != nil && compareKeys(prev, ks) > 0 {
			return fmt.Sprintf("row order differs where a sort determines it: want %s, got %s", want, got)
		}
		prev = ks
	}
	return ""
}

func forEachIdent(e sqlx.Expr, fn func(*sqlx.Ident)) {
	switch e := e.(type) {
	case *sqlx.Ident:
		fn(e)
	case *sqlx.Unary:
		forEachIdent(e.X, fn)
	case *sqlx.Binary:
		forEachIdent(e.X, fn)
		forEachIdent(e.Y, fn)
	case *sqlx.IsNull:
		forEachIdent(e.X, fn)
	case *sqlx.InList:
		forEachIdent(e.X, fn)
		for _, v := range e.Vals {
			forEachIdent(v, fn)
		}
	case *sqlx.Func:
		for _, a := range e.Args {
			forEachIdent(a, fn)
		}
		if e.Filter != nil {
			forEachIdent(e.Filter, fn)
		}
	case *sqlx.Case:
		for _, w := range e.Whens {
			forEachIdent(w.Cond, fn)
			forEachIdent(w.Val, fn)
		}
		if e.Else != nil {
			forEachIdent(e.Else, fn)
		}
	case *sqlx.Index:
		forEachIdent(e.X, fn)
		forEachIdent(e.I, fn)
	}
}
