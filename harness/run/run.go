// Package run is the execution engine shared by all checks: parallel exhaustive
// sweeps, per-case watchdog (hang / panic / crash attribution), violation records,
// replay files, known findings and evidence files.
package run

import (
	"encoding/json"
	"fmt"
	"os"
	"os/exec"
	"path/filepath"
	"runtime"
	"runtime/debug"
	"sort"
	"strconv"
	"strings"
	"sync"
	"sync/atomic"
	"syscall"
	"time"
)

// VerifDir is the root of the verification tree (evidence, replays, known findings).
var VerifDir = verifDir()

func verifDir() string {
	if d := os.Getenv("VERIF_DIR"); d != "" {
		return d
	}
	return "/verif"
}

// HangSeconds is the per-case wall-time threshold of the watchdog.
const HangSeconds = 10

type Viol struct {
	Property  string         `json:"property"`
	Check     string         `json:"check"`            // sub-check that found it
	Sig       string         `json:"signature"`        // construct + failure kind; known-findings match on this
	Source    string         `json:"source,omitempty"` // PQL source (or other primary input)
	SourceHex string         `json:"source_hex,omitempty"`
	Detail    string         `json:"detail,omitempty"` // expected / got, human readable
	Extra     map[string]any `json:"extra,omitempty"`  // whatever the replay function needs
	// History: the inputs the same worker examined directly before this one (check name, hex of the source), oldest first.
	// Kept in the replay file only when the violation does not reproduce in a fresh state but does after these inputs:
	// the code under test then carries state from one call to the next.
	History [][2]string `json:"history,omitempty"`
	order   [3]int64
}

type Known struct {
	Property string `json:"property"`
	Status   string `json:"status"` // "known" or "fixed"
	Sig      string `json:"signature"`
	// Match, when non-empty, must additionally be a substring of Source (identifies the specific input)
	Match   string `json:"match,omitempty"`
	Witness string `json:"witness,omitempty"`
	Commit  string `json:"commit,omitempty"`
	Note    string `json:"note,omitempty"`
}

type Runner struct {
	Property string
	Tier     string
	Seed     int64
	Workers  int
	Level    string
	Start    time.Time
	Deadline time.Time

	mu          sync.Mutex
	viols       []Viol
	sigCount    map[string]int
	counters    map[string]int64
	samples     []any
	Exhaust     bool
	capsHit     []string
	sweepSeq    int64
	Rule        string
	Assume      []string
	Extra       map[string]any
	evals       atomic.Int64
	nontriv     atomic.Int64
	stop        atomic.Bool
	workers     []*Worker
	slots       []byte
	ReplayFn    func(v *Viol) (reproduced bool, detail string)
	distinct    sync.Map
	distinctN   atomic.Int64
	harnessErrs []string
	// MC: report the model-checking evidence keys (states, transitions, traces) from the counters of the same names.
	MC bool
	// MaxWorkers limits the parallelism of following sweeps (0 = all workers).
	MaxWorkers int
	// HangLimit is the watchdog threshold in seconds for following sweeps (0 = HangSeconds).
	HangLimit atomic.Int64
}

const slotSize = 4096

type Worker struct {
	R        *Runner
	ID       int
	polls    int64
	cut      bool         // the current item was cut short by the tier deadline
	curStart atomic.Int64 // unix nanos of Begin; 0 = idle
	// libStart: unix nanos since which the worker has been inside code under test (Try / Timed); 0 = in harness code
	libStart atomic.Int64
	curMu    sync.Mutex
	cur      string
	item     int64
	seq      int64
	sweep    int64
	evals    int64
	nontriv  int64
	counters map[string]int64
	check    string
	recent   [][2]string // the last inputs passed to Begin (check, source), oldest first
}

const historyLen = 8

func New(property, tier, level string) *Runner {
	seed, _ := strconv.ParseInt(os.Getenv("VERIF_SEED"), 10, 64)
	w := runtime.NumCPU()
	if s := os.Getenv("VERIF_WORKERS"); s != "" {
		if n, err := strconv.Atoi(s); err == nil && n > 0 {
			w = n
		}
	}
	r := &Runner{Property: property, Tier: tier, Seed: seed, Workers: w, Level: level, Start: time.Now(),
		sigCount: map[string]int{}, counters: map[string]int64{}, Exhaust: true, Extra: map[string]any{}}
	budget := 150 * time.Second
	if tier == "thorough" {
		budget = 40 * time.Minute
	}
	if s := os.Getenv("VERIF_BUDGET_S"); s != "" {
		if n, err := strconv.Atoi(s); err == nil && n > 0 {
			budget = time.Duration(n) * time.Second
		}
	}
	r.Deadline = r.Start.Add(budget)
	debug.SetMaxStack(256 << 20)
	debug.SetGCPercent(800)
	r.initSlots()
	for i := 0; i < w; i++ {
		r.workers = append(r.workers, &Worker{R: r, ID: i, counters: map[string]int64{}})
	}
	go r.watchdog()
	return r
}

func (r *Runner) Thorough() bool { return r.Tier == "thorough" }

func (r *Runner) initSlots() {
	path := os.Getenv("VERIF_SLOTS")
	if path == "" {
		return
	}
	f, err := os.OpenFile(path, os.O_RDWR|os.O_CREATE, 0o600)
	if err != nil {
		return
	}
	defer f.Close()
	size := slotSize * 64
	if err := f.Truncate(int64(size)); err != nil {
		return
	}
	b, err := syscall.Mmap(int(f.Fd()), 0, size, syscall.PROT_READ|syscall.PROT_WRITE, syscall.MAP_SHARED)
	if err != nil {
		return
	}
	r.slots = b
}

// ReadSlots returns the current-case records left in a slots file by a dead child.
func ReadSlots(path string) []string {
	b, err := os.ReadFile(path)
	if err != nil {
		return nil
	}
	var out []string
	for off := 0; off+slotSize <= len(b); off += slotSize {
		n := int(b[off]) | int(b[off+1])<<8
		if n > 0 && n <= slotSize-2 {
			out = append(out, string(b[off+2:off+2+n]))
		}
	}
	return out
}

// Begin records the case the worker is about to run (for the watchdog and for
// crash attribution). check names the sub-check.
func (w *Worker) Begin(check, src string) {
	if w.cur != "" && (w.cur != src || w.check != check) {
		if len(w.recent) >= historyLen {
			w.recent = append(w.recent[:0], w.recent[1:]...)
		}
		w.recent = append(w.recent, [2]string{w.check, w.cur})
	}
	w.check = check
	w.curMu.Lock()
	w.cur = src
	w.curMu.Unlock()
	w.curStart.Store(time.Now().UnixNano())
	if s := w.R.slots; s != nil && w.ID < 64 {
		off := w.ID * slotSize
		n := len(src)
		if n > slotSize-2 {
			n = slotSize - 2
		}
		s[off], s[off+1] = 0, 0
		copy(s[off+2:], src[:n])
		s[off], s[off+1] = byte(n), byte(n>>8)
	}
	w.evals++
}

func (w *Worker) End() {
	w.curStart.Store(0)
	if s := w.R.slots; s != nil && w.ID < 64 {
		off := w.ID * slotSize
		s[off], s[off+1] = 0, 0
	}
}

// HarnessError records a fault of the checking machinery itself (never a property violation).
func (w *Worker) HarnessError(msg string) {
	r := w.R
	r.mu.Lock()
	defer r.mu.Unlock()
	if len(r.harnessErrs) < 5 {
		r.harnessErrs = append(r.harnessErrs, msg)
	}
}

// Nontrivial counts the current case as having reached the oracle's comparison.
func (w *Worker) Nontrivial() { w.nontriv++ }

func (w *Worker) Count(name string, n int64) { w.counters[name] += n }

// Stopped reports whether the run should end early (deadline or too many violations).
// Stopped tells a long work item to stop early: the violation cap was reached, or the tier deadline has passed
// (the item then does not count as completed and the sweep is reported as capped).
func (w *Worker) Stopped() bool {
	if w.R.stop.Load() {
		return true
	}
	w.polls++
	if w.polls%64 == 0 && time.Now().After(w.R.Deadline) {
		w.cut = true
	}
	return w.cut
}

// Fail records a violation for the current case.
func (w *Worker) Fail(sig, src, detail string, extra map[string]any) {
	r := w.R
	v := Viol{Property: r.Property, Check: w.check, Sig: sig, Source: src, Detail: detail, Extra: extra}
	v.order = [3]int64{w.sweep, w.item, w.seq}
	w.seq++
	r.mu.Lock()
	defer r.mu.Unlock()
	r.sigCount[sig]++
	if r.sigCount[sig] <= 3 {
		for _, h := range w.recent {
			v.History = append(v.History, [2]string{h[0], fmt.Sprintf("%x", h[1])})
		}
		r.viols = append(r.viols, v)
	}
	if len(r.sigCount) > 400 {
		r.stop.Store(true)
	}
}

// Try runs f and converts a panic into a violation; it returns false on panic.
// Timed marks f as code under test for the watchdog: only the time spent inside it counts towards the hang
// limit, so that work of the harness between two calls (enumeration, reference evaluation) is never mistaken for a hang.
func (w *Worker) Timed(f func()) {
	w.libStart.Store(time.Now().UnixNano())
	defer w.libStart.Store(0)
	f()
}

func (w *Worker) Try(src string, f func()) (ok bool) {
	w.libStart.Store(time.Now().UnixNano())
	defer w.libStart.Store(0)
	defer func() {
		if p := recover(); p != nil {
			st := string(debug.Stack())
			w.Fail("panic:"+panicSite(st), src, fmt.Sprintf("panic: %v\n%s", p, trimStack(st)), nil)
			ok = false
		}
	}()
	f()
	return true
}

func panicSite(st string) string {
	// first frame inside the pql module after the panic frames
	lines := strings.Split(st, "\n")
	for i, l := range lines {
		if strings.HasPrefix(l, "panic(") {
			for _, m := range lines[i+1:] {
				m = strings.TrimSpace(m)
				if strings.Contains(m, "runreveal/pql") && !strings.HasPrefix(m, "/") {
					if k := strings.IndexByte(m, '('); k > 0 {
						m = m[:k]
					}
					return m
				}
			}
		}
	}
	return "unknown"
}

func trimStack(st string) string {
	if len(st) > 3000 {
		return st[:3000] + "..."
	}
	return st
}

// Sweep runs fn(w, i) for i in [0,n) on all workers. Items are handed out
// dynamically; violations are ordered by (sweep, item, seq) afterwards so reports
// do not depend on timing.
func (r *Runner) Sweep(name string, n int64, fn func(w *Worker, i int64)) {
	r.sweepSeq++
	sw := r.sweepSeq
	t0 := time.Now()
	defer func() {
		r.mu.Lock()
		r.counters["ms:"+name] += time.Since(t0).Milliseconds()
		r.mu.Unlock()
	}()
	var next atomic.Int64
	var completed atomic.Int64
	var wg sync.WaitGroup
	for wi, w := range r.workers {
		if r.MaxWorkers > 0 && wi >= r.MaxWorkers {
			break
		}
		wg.Add(1)
		go func(w *Worker) {
			defer wg.Done()
			w.sweep = sw
			for {
				if r.stop.Load() {
					return
				}
				i := next.Add(1) - 1
				if i >= n {
					return
				}
				if time.Now().After(r.Deadline) {
					return
				}
				w.item, w.seq = i, 0
				w.cut = false
				fn(w, i)
				w.End()
				if !w.cut {
					completed.Add(1)
				}
			}
		}(w)
	}
	wg.Wait()
	if c := completed.Load(); c < n {
		r.mu.Lock()
		r.Exhaust = false
		r.capsHit = append(r.capsHit, fmt.Sprintf("%s: %d of %d work items completed (deadline or violation cap)", name, c, n))
		r.mu.Unlock()
	}
	r.mu.Lock()
	r.counters["items:"+name] += completed.Load()
	r.mu.Unlock()
}

// Serial runs f on worker 0 (for small sequential parts).
func (r *Runner) Serial(f func(w *Worker)) {
	r.sweepSeq++
	w := r.workers[0]
	w.sweep, w.item, w.seq = r.sweepSeq, 0, 0
	f(w)
	w.End()
}

func (r *Runner) Sample(x any) {
	r.mu.Lock()
	if len(r.samples) < 12 {
		r.samples = append(r.samples, x)
	}
	r.mu.Unlock()
}

func (r *Runner) Cap(msg string) {
	r.mu.Lock()
	r.Exhaust = false
	r.capsHit = append(r.capsHit, msg)
	r.mu.Unlock()
}

func (r *Runner) watchdog() {
	for {
		time.Sleep(500 * time.Millisecond)
		now := time.Now().UnixNano()
		for _, w := range r.workers {
			// the harness itself has not moved on for five minutes: a fault of the machinery, not a verdict
			if cs := w.curStart.Load(); cs != 0 && now-cs > 300*int64(time.Second) && w.libStart.Load() == 0 {
				w.curMu.Lock()
				src := w.cur
				w.curMu.Unlock()
				if w.curStart.Load() == cs {
					fmt.Fprintf(os.Stderr, "CHECK-ERROR the harness made no progress for 300 s after the case %q (check %s)\n", src, w.check)
					os.Exit(2)
				}
			}
			st := w.libStart.Load()
			limit := r.HangLimit.Load()
			if limit == 0 {
				limit = HangSeconds
			}
			if st != 0 && now-st > limit*int64(time.Second) {
				w.curMu.Lock()
				src := w.cur
				w.curMu.Unlock()
				// still the same call?
				if w.libStart.Load() != st {
					continue
				}
				v := Viol{Property: r.Property, Check: w.check, Sig: "hang", Source: src,
					Detail: fmt.Sprintf("case did not finish within %d s", limit)}
				r.mu.Lock()
				r.viols = append(r.viols, v)
				r.sigCount["hang"]++
				r.Exhaust = false
				r.capsHit = append(r.capsHit, "aborted by watchdog on a hanging case")
				r.mu.Unlock()
				code := r.finish(true)
				os.Exit(code)
			}
		}
		var ms runtime.MemStats
		if time.Now().Unix()%4 == 0 {
			runtime.ReadMemStats(&ms)
			if ms.HeapAlloc > 12<<30 {
				// a call into the code under test that has been running for seconds while the heap explodes is that
				// call's doing (exponential output / error lists): report it like a hang
				for _, w := range r.workers {
					if ls := w.libStart.Load(); ls != 0 && now-ls > 2*int64(time.Second) {
						w.curMu.Lock()
						src := w.cur
						w.curMu.Unlock()
						v := Viol{Property: r.Property, Check: w.check, Sig: "hang", Source: src,
							Detail: fmt.Sprintf("call still running after %d s with the heap above 12 GiB", (now-ls)/int64(time.Second))}
						r.mu.Lock()
						r.viols = append(r.viols, v)
						r.sigCount["hang"]++
						r.Exhaust = false
						r.capsHit = append(r.capsHit, "aborted by watchdog on a case that exhausts memory")
						r.mu.Unlock()
						code := r.finish(true)
						os.Exit(code)
					}
				}
				var cases []string
				for _, w := range r.workers {
					if w.curStart.Load() != 0 {
						w.curMu.Lock()
						cases = append(cases, w.cur)
						w.curMu.Unlock()
					}
				}
				fmt.Fprintf(os.Stderr, "CHECK-ERROR heap exceeded 12 GiB; current cases: %q\n", cases)
				os.Exit(3)
			}
		}
	}
}

func loadKnown() []Known {
	b, err := os.ReadFile(filepath.Join(VerifDir, "known_findings.json"))
	if err != nil {
		return nil
	}
	var f struct {
		Findings []Known `json:"findings"`
	}
	if err := json.Unmarshal(b, &f); err != nil {
		fmt.Fprintf(os.Stderr, "CHECK-ERROR known_findings.json: %v\n", err)
		os.Exit(2)
	}
	return f.Findings
}

func isPrintable(s string) bool {
	for _, c := range []byte(s) {
		if c < 0x20 && c != '\n' && c != '\t' || c >= 0x7f {
			return false
		}
	}
	return true
}

// Finish merges worker statistics, writes evidence and replay files, prints the
// VIOLATION / KNOWN-FINDING lines and returns the process exit code.
func (r *Runner) Finish() int { return r.finish(false) }

func (r *Runner) finish(aborted bool) int {
	r.mu.Lock()
	defer r.mu.Unlock()
	var evals, nontriv int64
	for _, w := range r.workers {
		evals += w.evals
		nontriv += w.nontriv
		for k, v := range w.counters {
			r.counters[k] += v
		}
	}
	if time.Now().After(r.Deadline) && !aborted {
		// deadline may have cut sweeps; Exhaust already cleared by Sweep if so
	}
	sort.SliceStable(r.viols, func(i, j int) bool {
		a, b := r.viols[i].order, r.viols[j].order
		for k := 0; k < 3; k++ {
			if a[k] != b[k] {
				return a[k] < b[k]
			}
		}
		return false
	})
	known := loadKnown()
	type group struct {
		first Viol
		n     int
	}
	seen := map[string]bool{}
	var newViols []Viol
	knownSeen := map[string]bool{}
	for _, v := range r.viols {
		matched := false
		for _, k := range known {
			if k.Status != "known" || k.Property != r.Property || k.Sig != v.Sig {
				continue
			}
			if k.Match != "" && !strings.Contains(v.Source, k.Match) {
				continue
			}
			matched = true
			key := k.Sig + "\x00" + k.Match
			if !knownSeen[key] {
				knownSeen[key] = true
				fmt.Printf("KNOWN-FINDING: property=%s %s (witness %q)\n", r.Property, k.Sig, k.Witness)
			}
		}
		if matched {
			continue
		}
		if seen[v.Sig] {
			continue
		}
		seen[v.Sig] = true
		newViols = append(newViols, v)
	}
	// Re-execute each violation from its record before reporting it.
	var confirmed []Viol
	harnessErr := false
	for i := range newViols {
		v := &newViols[i]
		if r.ReplayFn != nil && v.Sig != "hang" && !strings.HasPrefix(v.Sig, "crash") {
			ok, detail := safeReplay(r.ReplayFn, v)
			if !ok {
				fmt.Fprintf(os.Stderr, "CHECK-ERROR violation did not reproduce on replay: sig=%s source=%q detail=%s replay=%s\n", v.Sig, v.Source, v.Detail, detail)
				harnessErr = true
				continue
			}
		}
		confirmed = append(confirmed, *v)
	}
	os.MkdirAll(filepath.Join(VerifDir, "replays"), 0o755)
	for i, v := range confirmed {
		if i >= 25 {
			break
		}
		path := WriteReplay(r.Property, r.Tier, i, v)
		fmt.Printf("VIOLATION property=%s replay=%s\n", r.Property, path)
		fmt.Printf("  check=%s sig=%s count=%d\n  source=%q\n  %s\n", v.Check, v.Sig, r.sigCount[v.Sig], v.Source, strings.ReplaceAll(v.Detail, "\n", "\n  "))
	}
	// evidence
	cov := map[string]any{
		"evaluations":         evals,
		"distinct_nontrivial": nontriv,
		"rule":                r.Rule,
		"samples":             r.samples,
		"exhaustive":          r.Exhaust && !aborted,
		"caps_hit":            r.capsHit,
		"counters":            r.counters,
		"workers":             r.Workers,
		"known_findings_seen": len(knownSeen),
	}
	if r.MC {
		cov["states"] = r.counters["states"]
		cov["transitions"] = r.counters["transitions"]
		cov["traces_validated_against_impl"] = r.counters["traces_validated"]
	}
	for k, v := range r.Extra {
		cov[k] = v
	}
	if r.samples == nil {
		cov["samples"] = []any{}
	}
	ev := map[string]any{
		"property_id": r.Property,
		"tier":        r.Tier,
		"seed":        r.Seed,
		"level":       r.Level,
		"coverage":    cov,
		"assumptions": r.Assume,
		"wall_s":      time.Since(r.Start).Seconds(),
		"violations":  len(confirmed),
	}
	evDir := filepath.Join(VerifDir, "evidence")
	if d := os.Getenv("VERIF_EVIDENCE_DIR"); d != "" {
		evDir = d // runs against deliberately broken trees must not overwrite the evidence of the real tree
	}
	os.MkdirAll(evDir, 0o755)
	b, _ := json.MarshalIndent(ev, "", " ")
	if err := os.WriteFile(filepath.Join(evDir, r.Property+".json"), append(b, '\n'), 0o644); err != nil {
		fmt.Fprintf(os.Stderr, "CHECK-ERROR cannot write evidence: %v\n", err)
		return 2
	}
	fmt.Printf("%s %s: evaluations=%d nontrivial=%d violations=%d known=%d exhaustive=%v wall=%.1fs\n",
		r.Property, r.Tier, evals, nontriv, len(confirmed), len(knownSeen), r.Exhaust && !aborted, time.Since(r.Start).Seconds())
	for _, c := range r.capsHit {
		fmt.Printf("  cap: %s\n", c)
	}
	for _, h := range r.harnessErrs {
		fmt.Fprintf(os.Stderr, "CHECK-ERROR %s\n", h)
		harnessErr = true
	}
	if len(confirmed) > 0 {
		return 1
	}
	if harnessErr {
		return 2
	}
	return 0
}

func safeReplay(f func(v *Viol) (bool, string), v *Viol) (ok bool, detail string) {
	defer func() {
		if p := recover(); p != nil {
			// a panic during replay reproduces a panic violation
			ok = strings.HasPrefix(v.Sig, "panic")
			detail = fmt.Sprint(p)
		}
	}()
	return f(v)
}

// Counter adds to a run-level counter (thread safe).
func (r *Runner) Counter(name string, n int64) {
	r.mu.Lock()
	r.counters[name] += n
	r.mu.Unlock()
}

// Probe runs f on a detached worker and returns the violations it recorded.
// Used to re-execute a recorded case (replay) outside any sweep.
func Probe(property string, f func(w *Worker)) (out []Viol) {
	pr := &Runner{Property: property, sigCount: map[string]int{}, counters: map[string]int64{}, Extra: map[string]any{}}
	w := &Worker{R: pr, counters: map[string]int64{}}
	pr.workers = []*Worker{w}
	func() {
		defer func() {
			if p := recover(); p != nil {
				st := string(debug.Stack())
				out = append(out, Viol{Property: property, Sig: "panic:" + panicSite(st), Detail: fmt.Sprint(p)})
			}
		}()
		f(w)
	}()
	return append(out, pr.viols...)
}

// ReplayBy builds a ReplayFn from a function that re-runs the sub-check named
// v.Check on v.Source (+ v.Extra): the violation is confirmed when the same
// signature is reported again.
func ReplayBy(property string, f func(w *Worker, v *Viol)) func(v *Viol) (bool, string) {
	return func(v *Viol) (bool, string) {
		hist := v.History
		got := Probe(property, func(w *Worker) { f(w, v) })
		var sigs []string
		for _, g := range got {
			if g.Sig == v.Sig {
				// reproduced in this process; the record keeps the preceding inputs, which --replay runs first (this
				// process is not fresh, so they may have mattered)
				return true, ""
			}
			sigs = append(sigs, g.Sig)
		}
		v.History = nil
		if len(hist) == 0 {
			return false, fmt.Sprintf("replay produced signatures %q", sigs)
		}
		// Not reproducible statelessly: run the inputs that preceded it on the same worker first, each attempt in a
		// fresh process (this process carries whatever state the sweep left behind). A violation that appears only
		// then is a real one - the result of a call depends on earlier calls - and the record keeps the history.
		for start := len(hist) - 1; start >= 0; start-- {
			hv := *v
			hv.History = hist[start:]
			if !isPrintable(hv.Source) {
				hv.SourceHex = fmt.Sprintf("%x", hv.Source)
			}
			tmp, err := os.CreateTemp("", "verif-history-*.json")
			if err != nil {
				break
			}
			b, _ := json.Marshal(hv)
			tmp.Write(b)
			tmp.Close()
			cmd := exec.Command(os.Args[0], property, "--replay", tmp.Name())
			out, err := cmd.CombinedOutput()
			os.Remove(tmp.Name())
			if ee, ok := err.(*exec.ExitError); ok && ee.ExitCode() == 1 && strings.Contains(string(out), "VIOLATION property="+property) {
				v.History = hist[start:]
				var srcs []string
				for _, h := range v.History {
					srcs = append(srcs, fmt.Sprintf("%q", unhex(h[1])))
				}
				v.Detail += "\n(not reproducible in a fresh process on its own; reproduced in a fresh process after examining these inputs first: " + strings.Join(srcs, ", ") + " - the result of a call depends on earlier calls)"
				return true, ""
			}
		}
		return false, fmt.Sprintf("replay produced signatures %q (also in fresh processes after the %d inputs that preceded it)", sigs, len(hist))
	}
}

func unhex(s string) string {
	var raw []byte
	fmt.Sscanf(s, "%x", &raw)
	return string(raw)
}

// ReplayWithHistory re-runs the inputs recorded in v.History (ignoring what they report) and then v itself.
func ReplayWithHistory(f func(w *Worker, v *Viol), w *Worker, v *Viol) {
	for _, h := range v.History {
		hv := *v
		hv.Check, hv.Source, hv.SourceHex, hv.History = h[0], unhex(h[1]), "", nil
		func() {
			defer func() { recover() }()
			f(w, &hv)
		}()
	}
	w.R.mu.Lock()
	w.R.viols = nil
	w.R.mu.Unlock()
	f(w, v)
}

// LoadViol reads a replay file.
func LoadViol(path string) (*Viol, error) {
	b, err := os.ReadFile(path)
	if err != nil {
		return nil, err
	}
	var v Viol
	if err := json.Unmarshal(b, &v); err != nil {
		return nil, err
	}
	if v.SourceHex != "" {
		var raw []byte
		fmt.Sscanf(v.SourceHex, "%x", &raw)
		v.Source = string(raw)
	}
	return &v, nil
}

// WriteReplay stores a violation record under /verif/replays and returns its path.
func WriteReplay(property, tier string, i int, v Viol) string {
	os.MkdirAll(filepath.Join(VerifDir, "replays"), 0o755)
	if !isPrintable(v.Source) {
		v.SourceHex = fmt.Sprintf("%x", v.Source)
	}
	name := fmt.Sprintf("%s-%s-%02d.json", property, tier, i)
	path := filepath.Join(VerifDir, "replays", name)
	b, _ := json.MarshalIndent(v, "", " ")
	os.WriteFile(path, append(b, '\n'), 0o644)
	return path
}
