// Package instr rewrites the non-test Go files of a package so that every access
// to a package-level variable and every map access is announced to the explorer
// runtime, and sync / sync/atomic are replaced by scheduling-aware shims. It works
// from whatever source the tree contains now and names no identifier of pql.
package instr

import (
	"bytes"
	"fmt"
	"go/ast"
	"go/format"
	"go/importer"
	"go/parser"
	"go/token"
	"go/types"
	"os"
	"path/filepath"
	"sort"
	"strings"
)

const RuntimePath = "github.com/runreveal/pql/verifrt"

// Result of instrumenting one package.
type Result struct {
	Files   map[string][]byte // original path -> rewritten source
	Globals []string
	Points  int // inserted hook calls
	// Uncontrolled counts go statements and channel operations: concurrency the cooperative scheduler does not control
	Uncontrolled int
	// Rewritten counts go statements and channel operations handed over to the scheduler
	Rewritten int
}

// Package instruments the package in dir (import path pkgPath). resolve maps a
// source path to the file to read (build overlay of a mutant), or returns it unchanged.
func Package(dir, pkgPath string, resolve func(string) string) (*Result, error) {
	fset := token.NewFileSet()
	entries, err := os.ReadDir(dir)
	if err != nil {
		return nil, err
	}
	var files []*ast.File
	var paths []string
	for _, e := range entries {
		n := e.Name()
		if e.IsDir() || !strings.HasSuffix(n, ".go") || strings.HasSuffix(n, "_test.go") {
			continue
		}
		p := filepath.Join(dir, n)
		src, err := os.ReadFile(resolve(p))
		if err != nil {
			return nil, err
		}
		f, err := parser.ParseFile(fset, p, src, parser.ParseComments)
		if err != nil {
			return nil, err
		}
		files = append(files, f)
		paths = append(paths, p)
	}
	info := &types.Info{Types: map[ast.Expr]types.TypeAndValue{}, Uses: map[*ast.Ident]types.Object{}, Defs: map[*ast.Ident]types.Object{}}
	conf := types.Config{Importer: importer.ForCompiler(fset, "source", nil), Error: func(error) {}}
	pkg, _ := conf.Check(pkgPath, fset, files, info)
	if pkg == nil {
		return nil, fmt.Errorf("type check of %s produced no package", pkgPath)
	}
	res := &Result{Files: map[string][]byte{}}
	// package-level variables
	var globals []string
	for _, name := range pkg.Scope().Names() {
		if v, ok := pkg.Scope().Lookup(name).(*types.Var); ok && name != "_" {
			_ = v
			globals = append(globals, name)
		}
	}
	sort.Strings(globals)
	res.Globals = globals
	short := pkgPath[strings.LastIndex(pkgPath, "/")+1:]
	in := &instrumenter{fset: fset, info: info, pkg: pkg, short: short}
	for i, f := range files {
		in.file(f)
		// import rewriting: sync and sync/atomic -> shims; add the runtime
		usesRT := in.used[f]
		for _, imp := range f.Imports {
			switch imp.Path.Value {
			case `"sync"`:
				imp.Path.Value = `"` + RuntimePath + `/sync"`
			case `"sync/atomic"`:
				imp.Path.Value = `"` + RuntimePath + `/atomic"`
			}
		}
		if usesRT {
			addImport(f, "verifrt", RuntimePath)
		}
		var buf bytes.Buffer
		if err := format.Node(&buf, fset, f); err != nil {
			return nil, err
		}
		out := buf.Bytes()
		if i == 0 && len(globals) > 0 {
			// registration of package-level variables
			var sb strings.Builder
			sb.WriteString("\nfunc init() {\n\tverifrt.RegisterGlobals(" + fmt.Sprintf("%q", short) + ", map[string]any{\n")
			for _, g := range globals {
				fmt.Fprintf(&sb, "\t\t%q: &%s,\n", g, g)
			}
			sb.WriteString("\t})\n}\n")
			if !usesRT {
				// import was not added above
				f2, _ := parser.ParseFile(token.NewFileSet(), paths[i], out, parser.ParseComments)
				fs2 := token.NewFileSet()
				f2, _ = parser.ParseFile(fs2, paths[i], out, parser.ParseComments)
				addImport(f2, "verifrt", RuntimePath)
				buf.Reset()
				format.Node(&buf, fs2, f2)
				out = buf.Bytes()
			}
			out = append(out, []byte(sb.String())...)
		}
		res.Files[paths[i]] = out
	}
	res.Points = in.points
	res.Uncontrolled = -in.allowed
	res.Rewritten = in.rewritten
	for _, f := range files {
		ast.Inspect(f, func(n ast.Node) bool {
			switch x := n.(type) {
			case *ast.GoStmt, *ast.SendStmt, *ast.SelectStmt:
				res.Uncontrolled++
			case *ast.UnaryExpr:
				if x.Op == token.ARROW {
					res.Uncontrolled++
				}
			}
			return true
		})
	}
	return res, nil
}

func addImport(f *ast.File, name, path string) {
	spec := &ast.ImportSpec{Name: ast.NewIdent(name), Path: &ast.BasicLit{Kind: token.STRING, Value: `"` + path + `"`}}
	decl := &ast.GenDecl{Tok: token.IMPORT, Specs: []ast.Spec{spec}}
	f.Decls = append([]ast.Decl{decl}, f.Decls...)
	f.Imports = append(f.Imports, spec)
}

type instrumenter struct {
	fset   *token.FileSet
	info   *types.Info
	pkg    *types.Package
	short  string
	used   map[*ast.File]bool
	cur    *ast.File
	points int
	// rewritten counts go statements / channel operations handed to the scheduler; tmp numbers temporaries
	rewritten  int
	tmp        int
	allowed    int // constructs deliberately left in the tree (select with default and its clauses)
	seenSelect map[*ast.SelectStmt]bool
}

type access struct {
	global string   // package-level variable name, or ""
	mapX   ast.Expr // map expression, or nil
	write  bool
}

func (in *instrumenter) file(f *ast.File) {
	if in.used == nil {
		in.used = map[*ast.File]bool{}
	}
	in.cur = f
	for _, d := range f.Decls {
		if fd, ok := d.(*ast.FuncDecl); ok && fd.Body != nil {
			in.block(fd.Body)
		}
		if gd, ok := d.(*ast.GenDecl); ok && gd.Tok == token.VAR {
			// function literals in initialisers
			ast.Inspect(gd, func(n ast.Node) bool {
				if fl, ok := n.(*ast.FuncLit); ok {
					in.block(fl.Body)
					return false
				}
				return true
			})
		}
	}
}

// block instruments the statements of a block in place.
func (in *instrumenter) block(b *ast.BlockStmt) {
	if b == nil {
		return
	}
	b.List = in.stmts(b.List)
}

func (in *instrumenter) stmts(list []ast.Stmt) []ast.Stmt {
	var out []ast.Stmt
	for _, s := range list {
		hooks := in.hooksFor(in.headerAccesses(s))
		out = append(out, hooks...)
		s = in.concurrency(s)
		out = append(out, s)
		in.nested(s)
	}
	return out
}

func rtCall(name string, args ...ast.Expr) *ast.CallExpr {
	return &ast.CallExpr{Fun: &ast.SelectorExpr{X: ast.NewIdent("verifrt"), Sel: ast.NewIdent(name)}, Args: args}
}

// isRecv reports whether e is a plain channel receive <-ch.
func isRecv(e ast.Expr) (ast.Expr, bool) {
	for {
		p, ok := e.(*ast.ParenExpr)
		if !ok {
			break
		}
		e = p.X
	}
	if u, ok := e.(*ast.UnaryExpr); ok && u.Op == token.ARROW {
		return u.X, true
	}
	return nil, false
}

// concurrency rewrites the statement forms through which the code under test creates threads and
// communicates, so that the scheduler owns them: go statements (arguments are evaluated at the statement,
// the call runs as a new controlled thread), channel sends, receives in statement position, close, and
// select with a default branch (a scheduling point before it). Forms it cannot own are counted.
func (in *instrumenter) concurrency(s ast.Stmt) ast.Stmt {
	switch s := s.(type) {
	case *ast.LabeledStmt:
		s.Stmt = in.concurrency(s.Stmt)
		return s
	case *ast.GoStmt:
		in.used[in.cur] = true
		in.rewritten++
		var pre []ast.Stmt
		call := &ast.CallExpr{Fun: s.Call.Fun, Ellipsis: s.Call.Ellipsis}
		if _, lit := s.Call.Fun.(*ast.FuncLit); !lit {
			in.tmp++
			name := ast.NewIdent(fmt.Sprintf("verifF%d", in.tmp))
			pre = append(pre, &ast.AssignStmt{Lhs: []ast.Expr{name}, Tok: token.DEFINE, Rhs: []ast.Expr{s.Call.Fun}})
			call.Fun = name
		}
		for _, a := range s.Call.Args {
			in.tmp++
			name := ast.NewIdent(fmt.Sprintf("verifA%d", in.tmp))
			pre = append(pre, &ast.AssignStmt{Lhs: []ast.Expr{name}, Tok: token.DEFINE, Rhs: []ast.Expr{a}})
			call.Args = append(call.Args, name)
		}
		body := &ast.FuncLit{Type: &ast.FuncType{Params: &ast.FieldList{}}, Body: &ast.BlockStmt{List: []ast.Stmt{&ast.ExprStmt{X: call}}}}
		return &ast.BlockStmt{List: append(pre, &ast.ExprStmt{X: rtCall("Go", body)})}
	case *ast.SendStmt:
		in.used[in.cur] = true
		in.rewritten++
		return &ast.ExprStmt{X: rtCall("Send", s.Chan, s.Value)}
	case *ast.ExprStmt:
		if ch, ok := isRecv(s.X); ok {
			in.used[in.cur] = true
			in.rewritten++
			return &ast.ExprStmt{X: rtCall("Recv1", ch)}
		}
		if c, ok := s.X.(*ast.CallExpr); ok {
			if id, ok := c.Fun.(*ast.Ident); ok && id.Name == "close" && len(c.Args) == 1 {
				if _, isBuiltin := in.info.Uses[id].(*types.Builtin); isBuiltin {
					in.used[in.cur] = true
					in.rewritten++
					return &ast.ExprStmt{X: rtCall("Close", c.Args[0])}
				}
			}
		}
	case *ast.AssignStmt:
		if len(s.Rhs) == 1 {
			if ch, ok := isRecv(s.Rhs[0]); ok {
				in.used[in.cur] = true
				in.rewritten++
				name := "Recv1"
				if len(s.Lhs) == 2 {
					name = "Recv2"
				}
				s.Rhs = []ast.Expr{rtCall(name, ch)}
				return s
			}
		}
	case *ast.SelectStmt:
		hasDefault := false
		for _, c := range s.Body.List {
			if cc, ok := c.(*ast.CommClause); ok && cc.Comm == nil {
				hasDefault = true
			}
		}
		if hasDefault && !in.seenSelect[s] {
			// never blocks: one scheduling point before it
			if in.seenSelect == nil {
				in.seenSelect = map[*ast.SelectStmt]bool{}
			}
			in.seenSelect[s] = true
			in.used[in.cur] = true
			in.allowed += 1 + commOps(s)
			return &ast.BlockStmt{List: []ast.Stmt{&ast.ExprStmt{X: rtCall("SyncPoint", &ast.BasicLit{Kind: token.STRING, Value: `"chan:select"`}, &ast.BasicLit{Kind: token.STRING, Value: `"chan"`}, ast.NewIdent("true"))}, s}}
		}
	}
	return s
}

// commOps counts the channel operations in the communication clauses of a select statement.
func commOps(s *ast.SelectStmt) int {
	n := 0
	for _, c := range s.Body.List {
		if cc, ok := c.(*ast.CommClause); ok && cc.Comm != nil {
			n++
		}
	}
	return n
}

// nested instruments blocks inside a statement.
func (in *instrumenter) nested(s ast.Stmt) {
	switch s := s.(type) {
	case *ast.BlockStmt:
		in.block(s)
	case *ast.IfStmt:
		in.block(s.Body)
		if s.Else != nil {
			switch e := s.Else.(type) {
			case *ast.BlockStmt:
				in.block(e)
			case *ast.IfStmt:
				// else-if: header accesses cannot be hoisted before the else branch; wrap into a block
				hooks := in.hooksFor(in.headerAccesses(e))
				in.nested(e)
				if len(hooks) > 0 {
					s.Else = &ast.BlockStmt{List: append(hooks, e)}
				}
			}
		}
	case *ast.ForStmt:
		hooks := in.hooksFor(in.headerAccesses(s))
		in.block(s.Body)
		if len(hooks) > 0 {
			s.Body.List = append(s.Body.List, hooks...) // re-evaluated condition
		}
	case *ast.RangeStmt:
		in.block(s.Body)
	case *ast.SwitchStmt:
		in.clauses(s.Body)
	case *ast.TypeSwitchStmt:
		in.clauses(s.Body)
	case *ast.SelectStmt:
		in.clauses(s.Body)
	case *ast.LabeledStmt:
		in.nested(s.Stmt)
	}
	// function literals anywhere in the statement's own expressions
	for _, e := range headerNodes(s) {
		ast.Inspect(e, func(n ast.Node) bool {
			if fl, ok := n.(*ast.FuncLit); ok {
				in.block(fl.Body)
				return false
			}
			return true
		})
	}
}

func (in *instrumenter) clauses(b *ast.BlockStmt) {
	for _, c := range b.List {
		switch c := c.(type) {
		case *ast.CaseClause:
			c.Body = in.stmts(c.Body)
		case *ast.CommClause:
			c.Body = in.stmts(c.Body)
		}
	}
}

// headerNodes returns the expressions evaluated by the statement itself (not by nested blocks).
func headerNodes(s ast.Stmt) []ast.Node {
	switch s := s.(type) {
	case *ast.IfStmt:
		var n []ast.Node
		if s.Init != nil {
			n = append(n, s.Init)
		}
		return append(n, s.Cond)
	case *ast.ForStmt:
		var n []ast.Node
		if s.Init != nil {
			n = append(n, s.Init)
		}
		if s.Cond != nil {
			n = append(n, s.Cond)
		}
		if s.Post != nil {
			n = append(n, s.Post)
		}
		return n
	case *ast.RangeStmt:
		return []ast.Node{s.X}
	case *ast.SwitchStmt:
		var n []ast.Node
		if s.Init != nil {
			n = append(n, s.Init)
		}
		if s.Tag != nil {
			n = append(n, s.Tag)
		}
		return n
	case *ast.TypeSwitchStmt:
		var n []ast.Node
		if s.Init != nil {
			n = append(n, s.Init)
		}
		return append(n, s.Assign)
	case *ast.BlockStmt, *ast.SelectStmt:
		return nil
	case *ast.LabeledStmt:
		return headerNodes(s.Stmt)
	default:
		return []ast.Node{s}
	}
}

func (in *instrumenter) isGlobal(id *ast.Ident) bool {
	v, ok := in.info.Uses[id].(*types.Var)
	return ok && v.Pkg() == in.pkg && v.Parent() == in.pkg.Scope()
}

func (in *instrumenter) isMap(e ast.Expr) bool {
	tv, ok := in.info.Types[e]
	if !ok || tv.Type == nil {
		return false
	}
	_, isMap := tv.Type.Underlying().(*types.Map)
	return isMap
}

// simple: an expression that can be evaluated twice without side effects.
func simple(e ast.Expr) bool {
	switch e := e.(type) {
	case *ast.Ident:
		return true
	case *ast.SelectorExpr:
		return simple(e.X)
	case *ast.ParenExpr:
		return simple(e.X)
	case *ast.StarExpr:
		return simple(e.X)
	}
	return false
}

// globalPath returns the label "name.field.field" when e is a package-level
// variable or a chain of field selections rooted at one.
func (in *instrumenter) globalPath(e ast.Expr) (string, bool) {
	switch x := e.(type) {
	case *ast.Ident:
		if in.isGlobal(x) {
			return x.Name, true
		}
	case *ast.ParenExpr:
		return in.globalPath(x.X)
	case *ast.SelectorExpr:
		if v, ok := in.info.Uses[x.Sel].(*types.Var); ok && v.IsField() {
			if p, ok := in.globalPath(x.X); ok {
				return p + "." + x.Sel.Name, true
			}
		}
	}
	return "", false
}

// definedInside reports whether e mentions an object declared inside s itself.
func (in *instrumenter) definedInside(e ast.Expr, s ast.Stmt) bool {
	inside := false
	ast.Inspect(e, func(n ast.Node) bool {
		if id, ok := n.(*ast.Ident); ok {
			if obj := in.info.Uses[id]; obj != nil && obj.Pos() >= s.Pos() && obj.Pos() < s.End() {
				inside = true
			}
		}
		return true
	})
	return inside
}

func (in *instrumenter) headerAccesses(s ast.Stmt) []access {
	var acc []access
	writes := map[ast.Expr]bool{}
	var markWrite func(e ast.Expr)
	markWrite = func(e ast.Expr) {
		writes[e] = true
		switch x := e.(type) {
		case *ast.ParenExpr:
			markWrite(x.X)
		case *ast.SelectorExpr:
			// writing a field writes (part of) the variable: the path label carries the field
		case *ast.IndexExpr:
			if tv, ok := in.info.Types[x.X]; ok && tv.Type != nil {
				if _, isArr := tv.Type.Underlying().(*types.Array); isArr {
					markWrite(x.X)
				}
			}
		}
	}
	for _, n := range headerNodes(s) {
		ast.Inspect(n, func(n ast.Node) bool {
			switch x := n.(type) {
			case *ast.FuncLit:
				return false
			case *ast.AssignStmt:
				for _, l := range x.Lhs {
					markWrite(l)
				}
			case *ast.IncDecStmt:
				markWrite(x.X)
			case *ast.UnaryExpr:
				if x.Op == token.AND {
					markWrite(x.X)
				}
			case *ast.CallExpr:
				if id, ok := x.Fun.(*ast.Ident); ok && (id.Name == "delete" || id.Name == "clear") && len(x.Args) > 0 {
					writes[x.Args[0]] = true
				}
			case *ast.RangeStmt:
				if x.Tok == token.ASSIGN {
					if x.Key != nil {
						markWrite(x.Key)
					}
					if x.Value != nil {
						markWrite(x.Value)
					}
				}
			}
			return true
		})
		ast.Inspect(n, func(n ast.Node) bool {
			switch x := n.(type) {
			case *ast.FuncLit:
				return false
			case *ast.SelectorExpr:
				if p, ok := in.globalPath(x); ok {
					acc = append(acc, access{global: p, write: writes[x]})
					return false
				}
			case *ast.Ident:
				if in.isGlobal(x) {
					acc = append(acc, access{global: x.Name, write: writes[x]})
				}
			case *ast.IndexExpr:
				if in.isMap(x.X) && simple(x.X) && !in.definedInside(x.X, s) {
					acc = append(acc, access{mapX: x.X, write: writes[x]})
				}
			case *ast.CallExpr:
				if id, ok := x.Fun.(*ast.Ident); ok && (id.Name == "delete" || id.Name == "clear") && len(x.Args) > 0 && in.isMap(x.Args[0]) && simple(x.Args[0]) && !in.definedInside(x.Args[0], s) {
					acc = append(acc, access{mapX: x.Args[0], write: true})
				}
			}
			return true
		})
	}
	if rs, ok := s.(*ast.RangeStmt); ok && in.isMap(rs.X) && simple(rs.X) && !in.definedInside(rs.X, s) {
		acc = append(acc, access{mapX: rs.X})
	}
	// de-duplicate, writes win
	type key struct {
		g string
		m string
	}
	seen := map[key]int{}
	var out []access
	for _, a := range acc {
		k := key{g: a.global}
		if a.mapX != nil {
			var b bytes.Buffer
			format.Node(&b, in.fset, a.mapX)
			k.m = b.String()
		}
		if i, ok := seen[k]; ok {
			if a.write {
				out[i].write = true
			}
			continue
		}
		seen[k] = len(out)
		out = append(out, a)
	}
	return out
}

func (in *instrumenter) hooksFor(acc []access) []ast.Stmt {
	var out []ast.Stmt
	for _, a := range acc {
		var call *ast.CallExpr
		w := ast.NewIdent("false")
		if a.write {
			w = ast.NewIdent("true")
		}
		if a.mapX != nil {
			call = &ast.CallExpr{Fun: &ast.SelectorExpr{X: ast.NewIdent("verifrt"), Sel: ast.NewIdent("MapAccess")}, Args: []ast.Expr{a.mapX, w}}
		} else {
			call = &ast.CallExpr{Fun: &ast.SelectorExpr{X: ast.NewIdent("verifrt"), Sel: ast.NewIdent("Access")},
				Args: []ast.Expr{&ast.BasicLit{Kind: token.STRING, Value: fmt.Sprintf("%q", in.short+"."+a.global)}, w}}
		}
		out = append(out, &ast.ExprStmt{X: call})
		in.points++
		in.used[in.cur] = true
	}
	return out
}
