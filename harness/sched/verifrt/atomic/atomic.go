//go:build verif

// Package atomic replaces sync/atomic inside instrumented code: every operation
// is a scheduling point and is performed sequentially.
package atomic

import (
	"fmt"

	rt "github.com/runreveal/pql/verifrt"
)

func pt(p any, write bool) { rt.SyncPoint(fmt.Sprintf("atomic:%p", p), "atomic", write) }

type Bool struct{ v bool }

func (x *Bool) Load() bool   { pt(x, false); return x.v }
func (x *Bool) Store(v bool) { pt(x, true); x.v = v }
func (x *Bool) Swap(v bool) bool {
	pt(x, true)
	o := x.v
	x.v = v
	return o
}
func (x *Bool) CompareAndSwap(old, new bool) bool {
	pt(x, true)
	if x.v == old {
		x.v = new
		return true
	}
	return false
}

type integer interface {
	~int32 | ~int64 | ~uint32 | ~uint64 | ~uintptr
}

type num[T integer] struct{ v T }

func (x *num[T]) Load() T   { pt(x, false); return x.v }
func (x *num[T]) Store(v T) { pt(x, true); x.v = v }
func (x *num[T]) Add(d T) T { pt(x, true); x.v += d; return x.v }
func (x *num[T]) Swap(v T) T {
	pt(x, true)
	o := x.v
	x.v = v
	return o
}
func (x *num[T]) CompareAndSwap(old, new T) bool {
	pt(x, true)
	if x.v == old {
		x.v = new
		return true
	}
	return false
}

type Int32 struct{ num[int32] }
type Int64 struct{ num[int64] }
type Uint32 struct{ num[uint32] }
type Uint64 struct{ num[uint64] }
type Uintptr struct{ num[uintptr] }

type Pointer[T any] struct{ p *T }

func (x *Pointer[T]) Load() *T   { pt(x, false); return x.p }
func (x *Pointer[T]) Store(p *T) { pt(x, true); x.p = p }
func (x *Pointer[T]) Swap(p *T) *T {
	pt(x, true)
	o := x.p
	x.p = p
	return o
}
func (x *Pointer[T]) CompareAndSwap(old, new *T) bool {
	pt(x, true)
	if x.p == old {
		x.p = new
		return true
	}
	return false
}

type Value struct{ v any }

func (x *Value) Load() any   { pt(x, false); return x.v }
func (x *Value) Store(v any) { pt(x, true); x.v = v }
func (x *Value) Swap(v any) any {
	pt(x, true)
	o := x.v
	x.v = v
	return o
}
func (x *Value) CompareAndSwap(old, new any) bool {
	pt(x, true)
	if x.v == old {
		x.v = new
		return true
	}
	return false
}

func LoadInt32(p *int32) int32         { pt(p, false); return *p }
func StoreInt32(p *int32, v int32)     { pt(p, true); *p = v }
func AddInt32(p *int32, d int32) int32 { pt(p, true); *p += d; return *p }
func CompareAndSwapInt32(p *int32, old, new int32) bool {
	pt(p, true)
	if *p == old {
		*p = new
		return true
	}
	return false
}
func LoadInt64(p *int64) int64         { pt(p, false); return *p }
func StoreInt64(p *int64, v int64)     { pt(p, true); *p = v }
func AddInt64(p *int64, d int64) int64 { pt(p, true); *p += d; return *p }
func CompareAndSwapInt64(p *int64, old, new int64) bool {
	pt(p, true)
	if *p == old {
		*p = new
		return true
	}
	return false
}
func LoadUint32(p *uint32) uint32          { pt(p, false); return *p }
func StoreUint32(p *uint32, v uint32)      { pt(p, true); *p = v }
func AddUint32(p *uint32, d uint32) uint32 { pt(p, true); *p += d; return *p }
func CompareAndSwapUint32(p *uint32, old, new uint32) bool {
	pt(p, true)
	if *p == old {
		*p = new
		return true
	}
	return false
}
func LoadUint64(p *uint64) uint64          { pt(p, false); return *p }
func StoreUint64(p *uint64, v uint64)      { pt(p, true); *p = v }
func AddUint64(p *uint64, d uint64) uint64 { pt(p, true); *p += d; return *p }
func CompareAndSwapUint64(p *uint64, old, new uint64) bool {
	pt(p, true)
	if *p == old {
		*p = new
		return true
	}
	return false
}
