// Package verifrt is the runtime of the interleaving explorer: a cooperative
// scheduler for a small number of logical threads, scheduling points at
// instrumented shared-memory accesses and synchronisation operations, a data-race
// oracle over co-enabled conflicting accesses, and snapshot/restore of
// package-level state. It depends on the standard library only, because it is
// compiled both as part of the harness and (through a build overlay) as a package
// of the instrumented pql module.
package verifrt

import (
	"fmt"
	"reflect"
	"sort"
	"unsafe"
)

// Op is a pending operation of a thread at a scheduling point.
type Op struct {
	Obj   string // object label
	Write bool
	Kind  string // "var", "map", "once", "lock", "atomic", "start", ...
}

type threadState int

const (
	tReady   threadState = iota // parked at a point, may be resumed
	tBlocked                    // waiting for a synchronisation object
	tDone
)

type Thread struct {
	ID      int
	count   uint64 // scheduling points passed
	rhash   uint64 // hash of everything the thread observed at its points
	state   threadState
	pending Op
	blockOn any
	resume  chan struct{}
	body    func()
	Panic   any
}

// Point is one decision of the scheduler.
type Point struct {
	Enabled []int // thread ids in canonical order (running thread first)
	Ops     []Op  // pending operation of each enabled thread
	Chosen  int   // index into Enabled
	Running int   // thread that ran before this point (-1 at start)
	// RunningEnabled: the previously running thread is still enabled (choosing another one is a preemption)
	RunningEnabled bool
	// Key identifies the global state at this point: per thread its progress and everything it
	// observed, per object its version and write history. Equal keys have equal futures.
	Key uint64
}

type Race struct {
	A, B   Op
	TA, TB int
	Step   int
}

type Sched struct {
	threads  []*Thread
	parked   chan *Thread
	running  *Thread
	prefix   []int
	Points   []Point
	Races    []Race
	Deadlock bool
	Diverged string
	// Written collects the labels of all objects written in this execution.
	Written map[string]bool
	// skipRead: reads of objects with these labels never written in any execution so far are not scheduling points
	everWritten map[string]bool
	// map identity
	mapLabels map[uintptr]string
	touched   map[string]int // label -> thread id that touched it first, -2 = several
	sharedPre map[uintptr]string
	MaxPoints int
	Overflow  bool
	objVer    map[string]uint64
	objHash   map[string]uint64
	objIDs    map[uintptr]int
}

func mix(h uint64, xs ...uint64) uint64 {
	for _, x := range xs {
		h ^= x + 0x9e3779b97f4a7c15 + (h << 6) + (h >> 2)
		h *= 0xff51afd7ed558ccd
		h ^= h >> 33
	}
	return h
}

func strHash(s string) uint64 {
	h := uint64(14695981039346656037)
	for i := 0; i < len(s); i++ {
		h ^= uint64(s[i])
		h *= 1099511628211
	}
	return h
}

// stateKey combines (commutatively) the per-thread and per-object hashes.
func (s *Sched) stateKey() uint64 {
	var k uint64
	for _, t := range s.threads {
		k += mix(uint64(t.ID)+1, t.count, t.rhash, uint64(t.state), strHash(t.pending.Obj), b2u(t.pending.Write))
	}
	for o, v := range s.objVer {
		k += mix(strHash(o), v, s.objHash[o])
	}
	return k
}

func b2u(b bool) uint64 {
	if b {
		return 1
	}
	return 0
}

// perform updates the hashes for the operation the chosen thread is about to execute.
func (s *Sched) perform(t *Thread) {
	op := t.pending
	t.count++
	if op.Write {
		s.objVer[op.Obj]++
		s.objHash[op.Obj] = mix(s.objHash[op.Obj], uint64(t.ID)+1, t.rhash, t.count)
	}
	t.rhash = mix(t.rhash, strHash(op.Obj), s.objVer[op.Obj], s.objHash[op.Obj], b2u(op.Write))
}

var cur *Sched

// Active reports whether an exploration is in progress.
func Active() bool { return cur != nil }

// ---- package-level state ----

type global struct {
	name string
	ptr  reflect.Value // pointer to the variable
	snap reflect.Value // deep-enough copy taken after package initialisation
}

var globals []*global

// RegisterGlobals is called from generated init code with the addresses of all
// package-level variables of an instrumented package.
func RegisterGlobals(pkg string, vars map[string]any) {
	names := make([]string, 0, len(vars))
	for n := range vars {
		names = append(names, n)
	}
	sort.Strings(names)
	for _, n := range names {
		globals = append(globals, &global{name: pkg + "." + n, ptr: reflect.ValueOf(vars[n])})
	}
}

// Snapshot records the current value of every registered variable.
func Snapshot() {
	for _, g := range globals {
		g.snap = deepCopy(g.ptr.Elem(), 0)
	}
}

// Restore resets every registered variable to its snapshot (a fresh copy each time).
func Restore() {
	for _, g := range globals {
		g.ptr.Elem().Set(deepCopy(g.snap, 0))
	}
}

// GlobalNames lists the registered variables.
func GlobalNames() []string {
	var out []string
	for _, g := range globals {
		out = append(out, g.name)
	}
	return out
}

func settable(v reflect.Value) reflect.Value {
	if v.CanSet() || !v.CanAddr() {
		return v
	}
	return reflect.NewAt(v.Type(), unsafe.Pointer(v.UnsafeAddr())).Elem()
}

// deepCopy copies structs, arrays, maps and slices (so that mutations of the
// original do not reach the copy); pointers, funcs, channels and interfaces are shared.
func deepCopy(v reflect.Value, depth int) reflect.Value {
	out := reflect.New(v.Type()).Elem()
	switch v.Kind() {
	case reflect.Map:
		if v.IsNil() || depth > 6 {
			out.Set(v)
			return out
		}
		m := reflect.MakeMapWithSize(v.Type(), v.Len())
		it := v.MapRange()
		for it.Next() {
			m.SetMapIndex(it.Key(), deepCopy(it.Value(), depth+1))
		}
		out.Set(m)
	case reflect.Slice:
		if v.IsNil() || depth > 6 {
			out.Set(v)
			return out
		}
		s := reflect.MakeSlice(v.Type(), v.Len(), v.Len())
		for i := 0; i < v.Len(); i++ {
			s.Index(i).Set(deepCopy(v.Index(i), depth+1))
		}
		out.Set(s)
	case reflect.Struct:
		// copy wholesale first (keeps unexported scalar state), then deepen maps/slices
		out.Set(v)
		for i := 0; i < v.NumField(); i++ {
			f := v.Field(i)
			switch f.Kind() {
			case reflect.Map, reflect.Slice, reflect.Struct, reflect.Array:
				src := f
				if !src.CanInterface() {
					if !v.CanAddr() {
						continue
					}
					src = settable(f)
				}
				settable(out.Field(i)).Set(deepCopy(src, depth+1))
			}
		}
	case reflect.Array:
		for i := 0; i < v.Len(); i++ {
			out.Index(i).Set(deepCopy(v.Index(i), depth+1))
		}
	default:
		out.Set(v)
	}
	return out
}

// labelMaps finds maps reachable from the registered variables and labels them by path.
func (s *Sched) labelMaps() {
	s.mapLabels = map[uintptr]string{}
	for p, l := range s.sharedPre {
		s.mapLabels[p] = l
	}
	for _, g := range globals {
		s.walkMaps(g.ptr.Elem(), g.name, 0)
	}
}

func (s *Sched) walkMaps(v reflect.Value, path string, depth int) {
	if depth > 4 {
		return
	}
	switch v.Kind() {
	case reflect.Map:
		if !v.IsNil() {
			s.mapLabels[v.Pointer()] = "map:" + path
		}
	case reflect.Struct:
		for i := 0; i < v.NumField(); i++ {
			s.walkMaps(v.Field(i), path+"."+v.Type().Field(i).Name, depth+1)
		}
	case reflect.Ptr:
		if !v.IsNil() && depth < 2 {
			s.walkMaps(v.Elem(), path, depth+1)
		}
	}
}

// ---- hooks called by instrumented code ----

// Access marks a read or write of a package-level variable.
func Access(name string, write bool) {
	s := cur
	if s == nil || s.running == nil {
		return
	}
	s.point(Op{Obj: "var:" + name, Write: write, Kind: "var"})
}

// MapAccess marks a read or write of a map.
func MapAccess(m any, write bool) {
	s := cur
	if s == nil || s.running == nil {
		return
	}
	v := reflect.ValueOf(m)
	if v.Kind() != reflect.Map || v.IsNil() {
		return
	}
	p := v.Pointer()
	label, ok := s.mapLabels[p]
	if !ok {
		// maybe reachable from a global since the last labelling (lazily built tables)
		s.labelMaps()
		label, ok = s.mapLabels[p]
	}
	if !ok {
		// a map not reachable from shared state: private to the thread unless another thread touches it
		label = fmt.Sprintf("map:anon@%x", p)
		first, seen := s.touched[label]
		if !seen {
			s.touched[label] = s.running.ID
			return
		}
		if first == s.running.ID {
			return
		}
		s.touched[label] = -2
		label = "map:anonymous-shared"
	}
	s.point(Op{Obj: label, Write: write, Kind: "map"})
}

// SyncPoint is used by the sync/atomic shims.
func SyncPoint(obj string, kind string, write bool) {
	s := cur
	if s == nil || s.running == nil {
		return
	}
	s.point(Op{Obj: obj, Write: write, Kind: kind})
}

func (s *Sched) point(op Op) {
	if op.Write {
		s.Written[op.Obj] = true
	}
	if (op.Kind == "var" || op.Kind == "map") && !op.Write && !s.writtenRelated(op.Obj) {
		// a read of an object that no execution has ever written commutes with everything
		return
	}
	t := s.running
	t.pending = op
	t.state = tReady
	s.parked <- t
	<-t.resume
}

// Block parks the running thread until Unblock(obj) is called by another thread.
func Block(obj any, label string) {
	s := cur
	if s == nil || s.running == nil {
		panic("verifrt: blocking operation outside the scheduler (deadlock): " + label)
	}
	t := s.running
	t.pending = Op{Obj: label, Kind: "blocked"}
	t.state = tBlocked
	t.blockOn = obj
	s.parked <- t
	<-t.resume
}

// Unblock makes every thread blocked on obj ready again.
func Unblock(obj any) {
	s := cur
	if s == nil {
		return
	}
	for _, t := range s.threads {
		if t.state == tBlocked && t.blockOn == obj {
			t.state = tReady
			t.blockOn = nil
		}
	}
}

// ---- scheduler ----

// Execution is the result of one controlled run.
type Execution struct {
	Points   []Point
	Races    []Race
	Deadlock bool
	Overflow bool
	Written  map[string]bool
	Panics   []any
}

// Run executes the thread bodies under the scheduler. The first len(prefix)
// decisions are replayed; later decisions take the first enabled thread in
// canonical order (the running thread, then ascending ids). shared maps are
// labelled up front. everWritten is the set of object labels written in earlier executions.
func Run(bodies []func(), prefix []int, shared map[string]any, everWritten map[string]bool, maxPoints int) (*Execution, error) {
	s := &Sched{parked: make(chan *Thread), prefix: prefix, Written: map[string]bool{}, everWritten: everWritten,
		touched: map[string]int{}, sharedPre: map[uintptr]string{}, MaxPoints: maxPoints, objVer: map[string]uint64{}, objHash: map[string]uint64{}}
	for name, m := range shared {
		v := reflect.ValueOf(m)
		if v.Kind() == reflect.Map && !v.IsNil() {
			s.sharedPre[v.Pointer()] = "map:" + name
		}
	}
	s.labelMaps()
	for i, b := range bodies {
		s.threads = append(s.threads, &Thread{ID: i, resume: make(chan struct{}), body: b, pending: Op{Obj: fmt.Sprintf("thread:%d", i), Kind: "start"}})
	}
	cur = s
	defer func() { cur = nil }()
	for _, t := range s.threads {
		s.start(t)
	}
	prev := -1
	var err error
	for step := 0; ; step++ {
		var enabled []*Thread
		alive := 0
		for _, t := range s.threads {
			if t.state != tDone {
				alive++
			}
			if t.state == tReady {
				enabled = append(enabled, t)
			}
		}
		if alive == 0 {
			break
		}
		if len(enabled) == 0 {
			s.Deadlock = true
			break
		}
		// canonical order: previously running thread first
		runningEnabled := false
		sort.SliceStable(enabled, func(i, j int) bool {
			if enabled[i].ID == prev {
				return true
			}
			if enabled[j].ID == prev {
				return false
			}
			return enabled[i].ID < enabled[j].ID
		})
		if enabled[0].ID == prev {
			runningEnabled = true
		}
		choice := 0
		if step < len(prefix) {
			choice = prefix[step]
			if choice >= len(enabled) {
				err = fmt.Errorf("replay diverged at step %d: choice %d of %d enabled threads", step, choice, len(enabled))
				choice = 0
			}
		}
		pt := Point{Chosen: choice, Running: prev, RunningEnabled: runningEnabled, Key: s.stateKey()}
		for _, t := range enabled {
			pt.Enabled = append(pt.Enabled, t.ID)
			pt.Ops = append(pt.Ops, t.pending)
		}
		s.Points = append(s.Points, pt)
		// race oracle: co-enabled conflicting accesses
		for i := 0; i < len(enabled); i++ {
			for j := i + 1; j < len(enabled); j++ {
				a, b := enabled[i].pending, enabled[j].pending
				if (a.Kind == "var" || a.Kind == "map") && a.Kind == b.Kind && related(a.Obj, b.Obj) && (a.Write || b.Write) {
					s.Races = append(s.Races, Race{A: a, B: b, TA: enabled[i].ID, TB: enabled[j].ID, Step: step})
				}
			}
		}
		if s.MaxPoints > 0 && step >= s.MaxPoints {
			s.Overflow = true
		}
		t := enabled[choice]
		s.perform(t)
		s.running = t
		prev = t.ID
		t.resume <- struct{}{}
		<-s.parked
		s.running = nil
	}
	ex := &Execution{Points: s.Points, Races: s.Races, Deadlock: s.Deadlock, Overflow: s.Overflow, Written: s.Written}
	for _, t := range s.threads {
		if t.Panic != nil {
			ex.Panics = append(ex.Panics, t.Panic)
		}
	}
	if s.Deadlock {
		// release blocked goroutines is not possible; they stay parked (leaked) - acceptable for a failing execution
	}
	return ex, err
}

func (s *Sched) start(t *Thread) {
	go func() {
		<-t.resume
		defer func() {
			if p := recover(); p != nil {
				t.Panic = p
			}
			t.state = tDone
			s.parked <- t
		}()
		t.body()
	}()
}

// Go is the instrumented go statement: under the scheduler fn becomes a new controlled thread
// (enabled at once; it first runs when the scheduler picks it), otherwise a plain goroutine.
func Go(fn func()) {
	s := cur
	if s == nil || s.running == nil {
		go fn()
		return
	}
	id := len(s.threads)
	t := &Thread{ID: id, resume: make(chan struct{}), body: fn, pending: Op{Obj: fmt.Sprintf("thread:%d", id), Kind: "start"}}
	s.threads = append(s.threads, t)
	s.start(t)
	s.point(Op{Obj: fmt.Sprintf("thread:%d", id), Write: true, Kind: "spawn"})
}

// Unsupported is the panic value for constructs the scheduler cannot own (the explorer reports
// itself not applicable instead of reporting a violation).
type Unsupported struct{ What string }

func chanKey(ch any) uintptr { return reflect.ValueOf(ch).Pointer() }

// ObjLabel names a synchronisation object allocated during an execution (wait group, channel) by the order of
// first use in this execution: heap addresses differ from run to run, labels must not.
func ObjLabel(kind string, p uintptr) string {
	s := cur
	if s == nil {
		return fmt.Sprintf("%s:%x", kind, p)
	}
	if s.objIDs == nil {
		s.objIDs = map[uintptr]int{}
	}
	id, ok := s.objIDs[p]
	if !ok {
		id = len(s.objIDs) + 1
		s.objIDs[p] = id
	}
	return fmt.Sprintf("%s#%d", kind, id)
}

// Send is the instrumented channel send.
func Send[T any](ch chan<- T, v T) {
	s := cur
	if s == nil || s.running == nil {
		ch <- v
		return
	}
	key := chanKey(ch)
	label := ObjLabel("chan", key)
	for {
		s.point(Op{Obj: label, Write: true, Kind: "chan"})
		select {
		case ch <- v:
			Unblock(key)
			return
		default:
		}
		if cap(ch) == 0 {
			panic(Unsupported{"send on an unbuffered channel"})
		}
		Block(key, label)
	}
}

func recv[T any](ch <-chan T) (T, bool) {
	s := cur
	if s == nil || s.running == nil {
		v, ok := <-ch
		return v, ok
	}
	key := chanKey(ch)
	label := ObjLabel("chan", key)
	for {
		s.point(Op{Obj: label, Write: true, Kind: "chan"})
		select {
		case v, ok := <-ch:
			Unblock(key)
			return v, ok
		default:
		}
		if cap(ch) == 0 {
			panic(Unsupported{"receive on an unbuffered channel"})
		}
		Block(key, label)
	}
}

// Recv1 and Recv2 are the instrumented channel receives (value; value and ok).
func Recv1[T any](ch <-chan T) T         { v, _ := recv(ch); return v }
func Recv2[T any](ch <-chan T) (T, bool) { return recv(ch) }

// Close is the instrumented close.
func Close[T any](ch chan<- T) {
	s := cur
	if s != nil && s.running != nil {
		s.point(Op{Obj: ObjLabel("chan", chanKey(ch)), Write: true, Kind: "chan"})
	}
	close(ch)
	if s != nil {
		Unblock(chanKey(ch))
	}
}

// Running returns the id of the thread that currently runs under the scheduler (-1 if none).
func Running() int {
	if cur == nil || cur.running == nil {
		return -1
	}
	return cur.running.ID
}

// related: two labels denote overlapping storage when one is a prefix of the
// other at a field boundary (a struct variable and one of its fields).
func related(a, b string) bool {
	if len(a) > len(b) {
		a, b = b, a
	}
	return a == b || (len(b) > len(a) && b[:len(a)] == a && b[len(a)] == '.')
}

func (s *Sched) writtenRelated(obj string) bool {
	if s.everWritten[obj] || s.Written[obj] {
		return true
	}
	for w := range s.everWritten {
		if related(w, obj) {
			return true
		}
	}
	for w := range s.Written {
		if related(w, obj) {
			return true
		}
	}
	return false
}
