//go:build verif

// Package sync is the drop-in replacement for the standard sync package inside
// instrumented code: every operation is a scheduling point of the explorer; when
// no exploration is active the operations behave sequentially (the instrumented
// build is only ever run single-threaded outside the scheduler).
package sync

import (
	"fmt"
	stdsync "sync"
	"unsafe"

	rt "github.com/runreveal/pql/verifrt"
)

type Locker = stdsync.Locker

// WaitGroup: under the scheduler a counter with a blocking Wait; otherwise the real one.
type WaitGroup struct {
	n    int
	real stdsync.WaitGroup
}

func (w *WaitGroup) label() string { return rt.ObjLabel("waitgroup", uintptr(unsafe.Pointer(w))) }

func (w *WaitGroup) Add(d int) {
	if !rt.Active() || rt.Running() < 0 {
		w.real.Add(d)
		return
	}
	rt.SyncPoint(w.label(), "waitgroup", true)
	w.n += d
	if w.n < 0 {
		panic("sync: negative WaitGroup counter")
	}
	if w.n == 0 {
		rt.Unblock(w)
	}
}

func (w *WaitGroup) Done() { w.Add(-1) }

func (w *WaitGroup) Wait() {
	if !rt.Active() || rt.Running() < 0 {
		w.real.Wait()
		return
	}
	rt.SyncPoint(w.label(), "waitgroup", false)
	for w.n > 0 {
		rt.Block(w, w.label())
	}
}

type Once struct {
	done    bool
	running bool
}

func (o *Once) label() string { return fmt.Sprintf("once:%p", o) }

func (o *Once) Do(f func()) {
	rt.SyncPoint(o.label(), "once", true)
	for o.running && !o.done {
		rt.Block(o, o.label())
	}
	if o.done {
		return
	}
	o.running = true
	defer func() {
		o.done = true
		o.running = false
		rt.Unblock(o)
		rt.SyncPoint(o.label(), "once-done", true)
	}()
	f()
}

type Mutex struct {
	held bool
}

func (m *Mutex) label() string { return fmt.Sprintf("mutex:%p", m) }

func (m *Mutex) Lock() {
	rt.SyncPoint(m.label(), "lock", true)
	for m.held {
		if !rt.Active() {
			panic("verif sync shim: Lock of a held mutex outside the scheduler (self-deadlock)")
		}
		rt.Block(m, m.label())
	}
	m.held = true
}

func (m *Mutex) TryLock() bool {
	rt.SyncPoint(m.label(), "lock", true)
	if m.held {
		return false
	}
	m.held = true
	return true
}

func (m *Mutex) Unlock() {
	if !m.held {
		panic("sync: unlock of unlocked mutex")
	}
	m.held = false
	rt.Unblock(m)
	rt.SyncPoint(m.label(), "unlock", true)
}

type RWMutex struct {
	writer  bool
	readers int
}

func (m *RWMutex) label() string { return fmt.Sprintf("rwmutex:%p", m) }

func (m *RWMutex) Lock() {
	rt.SyncPoint(m.label(), "lock", true)
	for m.writer || m.readers > 0 {
		if !rt.Active() {
			panic("verif sync shim: Lock of a held RWMutex outside the scheduler")
		}
		rt.Block(m, m.label())
	}
	m.writer = true
}

func (m *RWMutex) Unlock() {
	if !m.writer {
		panic("sync: Unlock of unlocked RWMutex")
	}
	m.writer = false
	rt.Unblock(m)
	rt.SyncPoint(m.label(), "unlock", true)
}

func (m *RWMutex) RLock() {
	rt.SyncPoint(m.label(), "rlock", true)
	for m.writer {
		if !rt.Active() {
			panic("verif sync shim: RLock of a write-locked RWMutex outside the scheduler")
		}
		rt.Block(m, m.label())
	}
	m.readers++
}

func (m *RWMutex) RUnlock() {
	if m.readers <= 0 {
		panic("sync: RUnlock of unlocked RWMutex")
	}
	m.readers--
	rt.Unblock(m)
	rt.SyncPoint(m.label(), "runlock", true)
}

func (m *RWMutex) RLocker() Locker { return rlocker{m} }

type rlocker struct{ m *RWMutex }

func (r rlocker) Lock()   { r.m.RLock() }
func (r rlocker) Unlock() { r.m.RUnlock() }

// Map is a scheduling-point aware replacement for sync.Map.
type Map struct {
	m map[any]any
}

func (m *Map) label() string { return fmt.Sprintf("syncmap:%p", m) }

func (m *Map) Load(key any) (any, bool) {
	rt.SyncPoint(m.label(), "atomic", false)
	v, ok := m.m[key]
	return v, ok
}

func (m *Map) Store(key, value any) {
	rt.SyncPoint(m.label(), "atomic", true)
	if m.m == nil {
		m.m = map[any]any{}
	}
	m.m[key] = value
}

func (m *Map) LoadOrStore(key, value any) (any, bool) {
	rt.SyncPoint(m.label(), "atomic", true)
	if v, ok := m.m[key]; ok {
		return v, true
	}
	if m.m == nil {
		m.m = map[any]any{}
	}
	m.m[key] = value
	return value, false
}

func (m *Map) LoadAndDelete(key any) (any, bool) {
	rt.SyncPoint(m.label(), "atomic", true)
	v, ok := m.m[key]
	delete(m.m, key)
	return v, ok
}

func (m *Map) Delete(key any) {
	rt.SyncPoint(m.label(), "atomic", true)
	delete(m.m, key)
}

func (m *Map) Range(f func(key, value any) bool) {
	rt.SyncPoint(m.label(), "atomic", false)
	for k, v := range m.m {
		if !f(k, v) {
			return
		}
	}
}

// Pool hands objects from one call to the next, like sync.Pool may.
type Pool struct {
	New   func() any
	items []any
}

func (p *Pool) label() string { return fmt.Sprintf("pool:%p", p) }

func (p *Pool) Get() any {
	rt.SyncPoint(p.label(), "atomic", true)
	if n := len(p.items); n > 0 {
		x := p.items[n-1]
		p.items = p.items[:n-1]
		return x
	}
	if p.New != nil {
		return p.New()
	}
	return nil
}

func (p *Pool) Put(x any) {
	rt.SyncPoint(p.label(), "atomic", true)
	p.items = append(p.items, x)
}

func OnceFunc(f func()) func() {
	var o Once
	return func() { o.Do(f) }
}

func OnceValue[T any](f func() T) func() T {
	var o Once
	var v T
	return func() T {
		o.Do(func() { v = f() })
		return v
	}
}
