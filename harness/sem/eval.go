package sem

import (
	"strings"

	"verif/harness/gen"
	"verif/harness/reftok"
	"verif/harness/sqlx"
)

// Env supplies column values. Keys are dotted paths of identifier parts
// ("a", "q.a", "$left.k"); parameters use the key "param:" + SQL text.
type Env map[string]Val

// Ctx is the evaluation context shared by both sides of one comparison.
type Ctx struct {
	Env Env
	In  *Interner
	// Scope maps unquoted single-part PQL identifiers to bound values (lets, parameters).
	Scope map[string]Val
	// Agg, when non-nil, evaluates aggregate calls for the SQL side (set by the relational evaluator).
	Agg func(f *sqlx.Func) (Val, bool)
	// AggPQL does the same for the PQL side.
	AggPQL func(c *gen.Call) (Val, bool)
}

func numLit(text string) Val {
	r := reftok.NumValue(text)
	if r == nil {
		return E("number")
	}
	f, _ := r.Float64()
	return N(f)
}

// ---------------- SQL ----------------

func (c *Ctx) SQL(e sqlx.Expr) Val {
	switch e := e.(type) {
	case *sqlx.Ident:
		parts := make([]string, len(e.Parts))
		for i, p := range e.Parts {
			parts[i] = p.Name
		}
		key := strings.Join(parts, ".")
		if v, ok := c.Env[key]; ok {
			return v
		}
		return E("unknown column " + key)
	case *sqlx.Lit:
		switch e.Kind {
		case sqlx.LNum:
			return numLit(e.Text)
		case sqlx.LStr:
			return S(e.Str)
		case sqlx.LNull:
			return VNull
		case sqlx.LTrue:
			return VTrue
		default:
			return VFalse
		}
	case *sqlx.Param:
		if v, ok := c.Env["param:"+e.Text]; ok {
			return v
		}
		return E("unbound parameter " + e.Text)
	case *sqlx.Unary:
		x := c.SQL(e.X)
		switch e.Op {
		case "-":
			return Neg(x)
		case "+":
			return Pos(x)
		case "NOT":
			return Not(x)
		}
	case *sqlx.Binary:
		switch e.Op {
		case "AND":
			return And(c.SQL(e.X), c.SQL(e.Y))
		case "OR":
			return Or(c.SQL(e.X), c.SQL(e.Y))
		case "=", "==", "!=", "<>", "<", "<=", ">", ">=":
			return Compare(e.Op, c.SQL(e.X), c.SQL(e.Y))
		case "+", "-", "*", "/", "%":
			return Arith(e.Op, c.SQL(e.X), c.SQL(e.Y))
		case "||":
			return Concat(c.SQL(e.X), c.SQL(e.Y))
		}
		return VUnspec
	case *sqlx.IsNull:
		v := IsNull(c.SQL(e.X))
		if e.Not {
			return Not(v)
		}
		return v
	case *sqlx.InList:
		vals := make([]Val, len(e.Vals))
		for i, v := range e.Vals {
			vals[i] = c.SQL(v)
		}
		v := In(c.SQL(e.X), vals)
		if e.Not {
			return Not(v)
		}
		return v
	case *sqlx.Between:
		x := c.SQL(e.X)
		v := And(Compare(">=", x, c.SQL(e.Lo)), Compare("<=", x, c.SQL(e.Hi)))
		if e.Not {
			return Not(v)
		}
		return v
	case *sqlx.Case:
		if e.Operand != nil {
			op := c.SQL(e.Operand)
			for _, w := range e.Whens {
				t := Compare("=", op, c.SQL(w.Cond))
				if t.K == Err || t.K == Unspec {
					return t
				}
				if IsTrue(t) {
					return c.SQL(w.Val)
				}
			}
		} else {
			for _, w := range e.Whens {
				t := c.SQL(w.Cond)
				if t.K == Err || t.K == Unspec {
					return t
				}
				if t.K != Null && t.K != Num {
					return E("type")
				}
				if IsTrue(t) {
					return c.SQL(w.Val)
				}
			}
		}
		if e.Else != nil {
			return c.SQL(e.Else)
		}
		return VNull
	case *sqlx.Index:
		return IndexOf(c.SQL(e.X), c.SQL(e.I))
	case *sqlx.Cast:
		return VUnspec
	case *sqlx.Func:
		return c.sqlFunc(e)
	}
	return VUnspec
}

func (c *Ctx) sqlFunc(f *sqlx.Func) Val {
	if c.Agg != nil {
		if v, ok := c.Agg(f); ok {
			return v
		}
	}
	name := strings.ToLower(f.Name)
	args := func() []Val {
		out := make([]Val, len(f.Args))
		for i, a := range f.Args {
			out[i] = c.SQL(a)
		}
		return out
	}
	if f.NoParens || (name == "now" && len(f.Args) == 0) {
		return Now
	}
	if f.Filter != nil {
		// aggregate with FILTER in scalar position: opaque in the filter value
		if name == "count" && len(f.Args) == 0 && !f.Star || name == "count" && f.Star {
			return c.In.Opaque("countif", []Val{c.SQL(f.Filter)})
		}
		return c.In.Opaque(f.Name+" filter", append(args(), c.SQL(f.Filter)))
	}
	switch name {
	case "coalesce", "ifnull":
		// lazy: only as far as needed
		for _, a := range f.Args {
			v := c.SQL(a)
			if v.K != Null {
				return v
			}
		}
		return VNull
	case "lower":
		if len(f.Args) == 1 {
			return Lower(c.SQL(f.Args[0]))
		}
	case "upper":
		if len(f.Args) == 1 {
			return Upper(c.SQL(f.Args[0]))
		}
	case "concat":
		if len(f.Args) >= 1 {
			a := args()
			v := a[0]
			for _, x := range a[1:] {
				v = Concat(v, x)
			}
			return v
		}
	case "isnull":
		if len(f.Args) == 1 {
			return IsNull(c.SQL(f.Args[0]))
		}
	case "isnotnull":
		if len(f.Args) == 1 {
			return Not(IsNull(c.SQL(f.Args[0])))
		}
	case "not":
		if len(f.Args) == 1 {
			return Not(c.SQL(f.Args[0]))
		}
	case "if":
		if len(f.Args) == 3 {
			t := c.SQL(f.Args[0])
			if t.K == Err || t.K == Unspec {
				return t
			}
			if t.K != Null && t.K != Num {
				return E("type")
			}
			if IsTrue(t) {
				return c.SQL(f.Args[1])
			}
			return c.SQL(f.Args[2])
		}
	case "count":
		if len(f.Args) == 0 {
			return c.In.Opaque("count", nil)
		}
	case "countif":
		if len(f.Args) == 1 {
			return c.In.Opaque("countif", args())
		}
	}
	return c.In.Opaque(f.Name, args())
}

// ---------------- PQL ----------------

// PQL evaluates the generator's tree with PQL's meaning.
func (c *Ctx) PQL(e gen.Expr) Val {
	switch e := e.(type) {
	case *gen.Paren:
		return c.PQL(e.X)
	case *gen.Name:
		if len(e.Parts) == 1 && !e.Parts[0].Quoted {
			n := e.Parts[0].Name
			if v, ok := c.Scope[n]; ok {
				return v
			}
			switch n {
			case "true":
				return VTrue
			case "false":
				return VFalse
			case "null":
				return VNull
			}
		}
		parts := make([]string, len(e.Parts))
		for i, p := range e.Parts {
			parts[i] = p.Name
		}
		key := strings.Join(parts, ".")
		if v, ok := c.Env[key]; ok {
			return v
		}
		return E("unknown column " + key)
	case *gen.Lit:
		if e.Kind == gen.Str {
			return S(e.Value)
		}
		return numLit(e.Text)
	case *gen.Unary:
		if e.Op == "-" {
			return Neg(c.PQL(e.X))
		}
		return Pos(c.PQL(e.X))
	case *gen.Binary:
		x, y := c.PQL(e.X), c.PQL(e.Y)
		switch e.Op {
		case "and":
			return And(x, y)
		case "or":
			return Or(x, y)
		case "==":
			return Coalesce(Compare("=", x, y), VFalse)
		case "!=":
			return Coalesce(Compare("<>", x, y), VFalse)
		case "<", "<=", ">", ">=":
			return Compare(e.Op, x, y)
		case "=~", "!~":
			if v, ok := absorb(x, y); ok {
				return v
			}
			if x.K == Null || y.K == Null {
				return VUnspec
			}
			op := "="
			if e.Op == "!~" {
				op = "<>"
			}
			return Compare(op, Lower(x), Lower(y))
		default:
			return Arith(e.Op, x, y)
		}
	case *gen.In:
		vals := make([]Val, len(e.Vals))
		for i, v := range e.Vals {
			vals[i] = c.PQL(v)
		}
		return In(c.PQL(e.X), vals)
	case *gen.Index:
		return IndexOf(c.PQL(e.X), c.PQL(e.I))
	case *gen.Call:
		return c.pqlCall(e)
	}
	return VUnspec
}

func (c *Ctx) pqlCall(e *gen.Call) Val {
	if c.AggPQL != nil {
		if v, ok := c.AggPQL(e); ok {
			return v
		}
	}
	args := func() []Val {
		out := make([]Val, len(e.Args))
		for i, a := range e.Args {
			out[i] = c.PQL(a)
		}
		return out
	}
	n := len(e.Args)
	switch e.Func {
	case "not":
		if n == 1 {
			return Not(c.PQL(e.Args[0]))
		}
	case "isnull":
		if n == 1 {
			return IsNull(c.PQL(e.Args[0]))
		}
	case "isnotnull":
		if n == 1 {
			return Not(IsNull(c.PQL(e.Args[0])))
		}
	case "iff", "iif":
		if n == 3 {
			t := c.PQL(e.Args[0])
			if t.K == Err || t.K == Unspec {
				return t
			}
			if t.K != Null && t.K != Num {
				return E("type")
			}
			if IsTrue(t) {
				return c.PQL(e.Args[1])
			}
			return c.PQL(e.Args[2])
		}
	case "strcat":
		if n >= 1 {
			a := args()
			v := a[0]
			if n == 1 {
				// a single argument is passed through unchanged
				return v
			}
			for _, x := range a[1:] {
				v = Concat(v, x)
			}
			return v
		}
	case "tolower":
		if n == 1 {
			return Lower(c.PQL(e.Args[0]))
		}
	case "toupper":
		if n == 1 {
			return Upper(c.PQL(e.Args[0]))
		}
	case "now":
		if n == 0 {
			return Now
		}
	case "count":
		if n == 0 {
			return c.In.Opaque("count", nil)
		}
	case "countif":
		if n == 1 {
			return c.In.Opaque("countif", args())
		}
	}
	return c.In.Opaque(e.Func, args())
}
