// Package sem is the value domain and the primitive semantics shared by the SQL
// evaluator and the PQL evaluator (DESIGN.md appendix A). Both sides call the same
// primitives, so an error in a primitive cancels out; a difference can only come
// from the structure of the two expressions.
package sem

import (
	"fmt"
	"math"
	"sort"
	"strconv"
	"strings"
)

type Kind int

const (
	Null Kind = iota
	Num
	Str
	Arr
	Err    // type error, division by zero (absorbing)
	Unspec // the statement leaves the value open (absorbing, wins over Err)
)

type Val struct {
	K Kind
	N float64
	S string
	A []Val
}

var (
	VNull   = Val{K: Null}
	VTrue   = Val{K: Num, N: 1}
	VFalse  = Val{K: Num, N: 0}
	VUnspec = Val{K: Unspec}
)

func N(x float64) Val  { return Val{K: Num, N: x} }
func S(s string) Val   { return Val{K: Str, S: s} }
func A(v ...Val) Val   { return Val{K: Arr, A: v} }
func E(why string) Val { return Val{K: Err, S: why} }
func Bool(b bool) Val {
	if b {
		return VTrue
	}
	return VFalse
}

func (v Val) String() string {
	switch v.K {
	case Null:
		return "NULL"
	case Num:
		return strconv.FormatFloat(v.N, 'g', -1, 64)
	case Str:
		return fmt.Sprintf("%q", v.S)
	case Arr:
		var p []string
		for _, x := range v.A {
			p = append(p, x.String())
		}
		return "[" + strings.Join(p, ",") + "]"
	case Err:
		return "ERR(" + v.S + ")"
	}
	return "UNSPECIFIED"
}

// Equal is identity of values (NULL equals NULL, errors equal errors).
func Equal(a, b Val) bool {
	if a.K != b.K {
		return false
	}
	switch a.K {
	case Num:
		return a.N == b.N || (math.IsNaN(a.N) && math.IsNaN(b.N))
	case Str:
		return a.S == b.S
	case Arr:
		if len(a.A) != len(b.A) {
			return false
		}
		for i := range a.A {
			if !Equal(a.A[i], b.A[i]) {
				return false
			}
		}
	}
	return true
}

// IsTrue: a number is true iff non-zero.
func IsTrue(v Val) bool { return v.K == Num && v.N != 0 }

// absorb returns the absorbing value among the operands, if any.
func absorb(vs ...Val) (Val, bool) {
	for _, v := range vs {
		if v.K == Unspec {
			return v, true
		}
	}
	for _, v := range vs {
		if v.K == Err {
			return v, true
		}
	}
	return Val{}, false
}

func Arith(op string, a, b Val) Val {
	if v, ok := absorb(a, b); ok {
		return v
	}
	if a.K == Null || b.K == Null {
		if (a.K == Null || a.K == Num) && (b.K == Null || b.K == Num) {
			return VNull
		}
		return E("type")
	}
	if a.K != Num || b.K != Num {
		return E("type")
	}
	switch op {
	case "+":
		return N(a.N + b.N)
	case "-":
		return N(a.N - b.N)
	case "*":
		return N(a.N * b.N)
	case "/":
		if b.N == 0 {
			return E("div0")
		}
		return N(a.N / b.N)
	case "%":
		if b.N == 0 {
			return E("div0")
		}
		return N(math.Mod(a.N, b.N))
	}
	return E("op " + op)
}

func cmp3(a, b Val) (int, bool) {
	if a.K != b.K {
		return 0, false
	}
	switch a.K {
	case Num:
		switch {
		case a.N < b.N:
			return -1, true
		case a.N > b.N:
			return 1, true
		}
		return 0, true
	case Str:
		return strings.Compare(a.S, b.S), true
	case Arr:
		for i := 0; i < len(a.A) && i < len(b.A); i++ {
			c, ok := cmp3(a.A[i], b.A[i])
			if !ok {
				return 0, false
			}
			if c != 0 {
				return c, true
			}
		}
		return len(a.A) - len(b.A), true
	}
	return 0, false
}

// Compare implements = <> < <= > >= with SQL NULL propagation.
func Compare(op string, a, b Val) Val {
	if v, ok := absorb(a, b); ok {
		return v
	}
	if a.K == Null || b.K == Null {
		return VNull
	}
	c, ok := cmp3(a, b)
	if !ok {
		return E("type")
	}
	switch op {
	case "=", "==":
		return Bool(c == 0)
	case "<>", "!=":
		return Bool(c != 0)
	case "<":
		return Bool(c < 0)
	case "<=":
		return Bool(c <= 0)
	case ">":
		return Bool(c > 0)
	case ">=":
		return Bool(c >= 0)
	}
	return E("op " + op)
}

func truth(v Val) (t, known, ok bool) {
	switch v.K {
	case Null:
		return false, false, true
	case Num:
		return v.N != 0, true, true
	}
	return false, false, false
}

func And(a, b Val) Val {
	if v, ok := absorb(a, b); ok {
		return v
	}
	ta, ka, oa := truth(a)
	tb, kb, ob := truth(b)
	if !oa || !ob {
		return E("type")
	}
	if (ka && !ta) || (kb && !tb) {
		return VFalse
	}
	if ka && kb {
		return VTrue
	}
	return VNull
}

func Or(a, b Val) Val {
	if v, ok := absorb(a, b); ok {
		return v
	}
	ta, ka, oa := truth(a)
	tb, kb, ob := truth(b)
	if !oa || !ob {
		return E("type")
	}
	if (ka && ta) || (kb && tb) {
		return VTrue
	}
	if ka && kb {
		return VFalse
	}
	return VNull
}

func Not(a Val) Val {
	if v, ok := absorb(a); ok {
		return v
	}
	t, k, o := truth(a)
	if !o {
		return E("type")
	}
	if !k {
		return VNull
	}
	return Bool(!t)
}

func Neg(a Val) Val {
	if v, ok := absorb(a); ok {
		return v
	}
	switch a.K {
	case Null:
		return VNull
	case Num:
		return N(-a.N)
	}
	return E("type")
}

func Pos(a Val) Val {
	if v, ok := absorb(a); ok {
		return v
	}
	switch a.K {
	case Null, Num:
		return a
	}
	return E("type")
}

// In implements x IN (v...).
func In(x Val, vs []Val) Val {
	if v, ok := absorb(append([]Val{x}, vs...)...); ok {
		return v
	}
	sawNull := x.K == Null
	for _, v := range vs {
		c := Compare("=", x, v)
		switch {
		case c.K == Err:
			// values of different types are simply not equal
			continue
		case c.K == Null:
			sawNull = true
		case IsTrue(c):
			if x.K != Null {
				return VTrue
			}
		}
	}
	if sawNull {
		return VNull
	}
	return VFalse
}

func Coalesce(vs ...Val) Val {
	if v, ok := absorb(vs...); ok {
		return v
	}
	for _, v := range vs {
		if v.K != Null {
			return v
		}
	}
	return VNull
}

func IsNull(a Val) Val {
	if v, ok := absorb(a); ok {
		return v
	}
	return Bool(a.K == Null)
}

func Concat(a, b Val) Val {
	if v, ok := absorb(a, b); ok {
		return v
	}
	if a.K == Null || b.K == Null {
		if (a.K == Null || a.K == Str) && (b.K == Null || b.K == Str) {
			return VNull
		}
		return E("type")
	}
	if a.K != Str || b.K != Str {
		return E("type")
	}
	return S(a.S + b.S)
}

func Lower(a Val) Val {
	if v, ok := absorb(a); ok {
		return v
	}
	switch a.K {
	case Null:
		return VNull
	case Str:
		return S(strings.ToLower(a.S))
	}
	return E("type")
}

func Upper(a Val) Val {
	if v, ok := absorb(a); ok {
		return v
	}
	switch a.K {
	case Null:
		return VNull
	case Str:
		return S(strings.ToUpper(a.S))
	}
	return E("type")
}

func IndexOf(x, i Val) Val {
	if v, ok := absorb(x, i); ok {
		return v
	}
	if x.K == Null || i.K == Null {
		return VNull
	}
	if i.K != Num || i.N != math.Trunc(i.N) {
		if x.K == Arr || x.K == Str {
			return E("type")
		}
	}
	switch x.K {
	case Arr:
		k := int(i.N)
		if k < 1 || k > len(x.A) {
			return VNull
		}
		return x.A[k-1]
	case Str:
		k := int(i.N)
		if k < 1 || k > len(x.S) {
			return VNull
		}
		return S(x.S[k-1 : k])
	}
	return E("type")
}

var Now = S("\x00NOW")

// ---- injective interpretation of unknown functions ----

// Interner interprets uninterpreted functions injectively: the result of
// f(v1..vn) is a number that identifies (f, v1..vn). One Interner must be shared
// by the two sides of a comparison; it is not safe for concurrent use.
type Interner struct{ m map[string]float64 }

func NewInterner() *Interner { return &Interner{m: map[string]float64{}} }

func (in *Interner) Opaque(name string, args []Val) Val {
	if v, ok := absorb(args...); ok {
		return v
	}
	var sb strings.Builder
	sb.WriteString(name)
	for _, a := range args {
		sb.WriteByte(0)
		sb.WriteString(a.String())
	}
	k := sb.String()
	if v, ok := in.m[k]; ok {
		return N(v)
	}
	if len(in.m) > 200000 {
		in.m = map[string]float64{}
	}
	v := 1000003 + float64(len(in.m))*7
	in.m[k] = v
	return N(v)
}

// ---- aggregates over a group (list of per-row argument values) ----

func AggCount(n int) Val { return N(float64(n)) }

func AggCountIf(ps []Val) Val {
	if v, ok := absorb(ps...); ok {
		return v
	}
	c := 0
	for _, p := range ps {
		if p.K != Null && p.K != Num {
			return E("type")
		}
		if IsTrue(p) {
			c++
		}
	}
	return N(float64(c))
}

func AggSum(vs []Val) Val {
	if v, ok := absorb(vs...); ok {
		return v
	}
	s, any := 0.0, false
	for _, v := range vs {
		switch v.K {
		case Null:
		case Num:
			s += v.N
			any = true
		default:
			return E("type")
		}
	}
	if !any {
		return VNull
	}
	return N(s)
}

func AggMinMax(vs []Val, max bool) Val {
	if v, ok := absorb(vs...); ok {
		return v
	}
	var best *Val
	for i := range vs {
		v := vs[i]
		if v.K == Null {
			continue
		}
		if best == nil {
			best = &vs[i]
			continue
		}
		c, ok := cmp3(v, *best)
		if !ok {
			return E("type")
		}
		if (max && c > 0) || (!max && c < 0) {
			best = &vs[i]
		}
	}
	if best == nil {
		return VNull
	}
	return *best
}

// AggOpaque interprets an unknown aggregate injectively over the list of row values.
func (in *Interner) AggOpaque(name string, rows [][]Val) Val {
	var flat []Val
	for _, r := range rows {
		flat = append(flat, A(r...))
	}
	return in.Opaque("agg:"+name, flat)
}

// SortKey orders values for ORDER BY: returns -1/0/1 for two non-NULL values of the same type.
func SortCompare(a, b Val) (int, bool) { return cmp3(a, b) }

// Key renders a value canonically (for grouping / DISTINCT).
func Key(vs []Val) string {
	var sb strings.Builder
	for _, v := range vs {
		sb.WriteString(v.String())
		sb.WriteByte(0)
	}
	return sb.String()
}

var _ = sort.Ints
