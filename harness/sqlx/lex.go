// Package sqlx is an independent reader for the SQL that pql emits: two lexers
// (standard quoting rules, ClickHouse backslash rules), a statement parser for
// `[WITH name AS (select), ...] select ;` and an expression parser with ClickHouse's
// operator priorities. It shares no code with pql.
package sqlx

import (
	"fmt"
	"strings"
)

type Dialect int

const (
	Standard   Dialect = iota // quotes escaped by doubling only; backslash is an ordinary character
	ClickHouse                // additionally backslash escapes inside '...', "..." and `...`; # comments
)

func (d Dialect) String() string {
	if d == ClickHouse {
		return "clickhouse"
	}
	return "standard"
}

type TokKind int

const (
	TWord        TokKind = iota // bare word: keyword, function name, bare identifier
	TQuotedIdent                // "..." (or `...`)
	TString                     // '...'
	TNumber
	TOp          // punctuation / operator
	TPlaceholder // {name:Type}, $1, ?
	TComment
	TUnterminated // unterminated string / identifier / comment / placeholder
	TBad          // a byte no SQL token starts with
)

var tokKindNames = [...]string{"word", "quoted-ident", "string", "number", "op", "placeholder", "comment", "unterminated", "bad"}

func (k TokKind) String() string { return tokKindNames[k] }

type Tok struct {
	Kind       TokKind
	Text       string // exact source text
	Val        string // decoded value for strings and quoted identifiers; upper-cased word for TWord
	Start, End int
}

func (t Tok) String() string { return fmt.Sprintf("%s(%q)", t.Kind, t.Text) }

func isWordStart(c byte) bool {
	return c == '_' || 'a' <= c && c <= 'z' || 'A' <= c && c <= 'Z' || c >= 0x80
}
func isWordPart(c byte) bool { return isWordStart(c) || '0' <= c && c <= '9' || c == '$' }
func isDigit(c byte) bool    { return '0' <= c && c <= '9' }
func isSpace(c byte) bool {
	return c == ' ' || c == '\t' || c == '\n' || c == '\r' || c == '\f' || c == '\v'
}

// Lex tokenizes s completely; it never fails: problems are reported as
// TUnterminated / TBad / TComment tokens which callers forbid.
func Lex(s string, d Dialect) []Tok {
	var out []Tok
	i := 0
	for i < len(s) {
		c := s[i]
		if isSpace(c) {
			i++
			continue
		}
		start := i
		emit := func(k TokKind, end int, val string) {
			out = append(out, Tok{Kind: k, Text: s[start:end], Val: val, Start: start, End: end})
			i = end
		}
		switch {
		case c == '-' && i+1 < len(s) && s[i+1] == '-':
			j := strings.IndexByte(s[i:], '\n')
			if j < 0 {
				emit(TComment, len(s), "")
			} else {
				emit(TComment, i+j+1, "")
			}
		case c == '#' && d == ClickHouse:
			j := strings.IndexByte(s[i:], '\n')
			if j < 0 {
				emit(TComment, len(s), "")
			} else {
				emit(TComment, i+j+1, "")
			}
		case c == '/' && i+1 < len(s) && s[i+1] == '*':
			j := strings.Index(s[i+2:], "*/")
			if j < 0 {
				emit(TUnterminated, len(s), "")
			} else {
				emit(TComment, i+2+j+2, "")
			}
		case c == '\'' || c == '"' || (c == '`' && d == ClickHouse):
			var val []byte
			j := i + 1
			closed := false
			for j < len(s) {
				b := s[j]
				if b == c {
					if j+1 < len(s) && s[j+1] == c {
						val = append(val, c)
						j += 2
						continue
					}
					closed = true
					j++
					break
				}
				if b == '\\' && d == ClickHouse {
					if j+1 >= len(s) {
						j++
						break
					}
					e := s[j+1]
					switch e {
					case 'b':
						val = append(val, '\b')
					case 'f':
						val = append(val, '\f')
					case 'r':
						val = append(val, '\r')
					case 'n':
						val = append(val, '\n')
					case 't':
						val = append(val, '\t')
					case '0':
						val = append(val, 0)
					case 'a':
						val = append(val, '\a')
					case 'v':
						val = append(val, '\v')
					case 'x':
						if j+3 < len(s) && isHexDigit(s[j+2]) && isHexDigit(s[j+3]) {
							val = append(val, hexVal(s[j+2])<<4|hexVal(s[j+3]))
							j += 2
						} else {
							val = append(val, 'x')
						}
					default:
						val = append(val, e)
					}
					j += 2
					continue
				}
				val = append(val, b)
				j++
			}
			if !closed {
				emit(TUnterminated, len(s), "")
			} else if c == '\'' {
				emit(TString, j, string(val))
			} else {
				emit(TQuotedIdent, j, string(val))
			}
		case isDigit(c) || (c == '.' && i+1 < len(s) && isDigit(s[i+1])):
			j := i
			if c == '0' && j+1 < len(s) && (s[j+1] == 'x' || s[j+1] == 'X') {
				j += 2
				for j < len(s) && isHexDigit(s[j]) {
					j++
				}
			} else {
				for j < len(s) && isDigit(s[j]) {
					j++
				}
				if j < len(s) && s[j] == '.' {
					j++
					for j < len(s) && isDigit(s[j]) {
						j++
					}
				}
				if j < len(s) && (s[j] == 'e' || s[j] == 'E') {
					k := j + 1
					if k < len(s) && (s[k] == '+' || s[k] == '-') {
						k++
					}
					if k < len(s) && isDigit(s[k]) {
						for k < len(s) && isDigit(s[k]) {
							k++
						}
						j = k
					}
				}
			}
			// a word character glued to a number makes the number malformed
			if j < len(s) && isWordPart(s[j]) {
				for j < len(s) && isWordPart(s[j]) {
					j++
				}
				emit(TBad, j, "")
			} else {
				emit(TNumber, j, "")
			}
		case isWordStart(c) || (c == '$' && i+1 < len(s) && isWordStart(s[i+1])):
			// "$name": some dialects allow '$' in identifiers; function names are passed through by name
			j := i + 1
			for j < len(s) && isWordPart(s[j]) {
				j++
			}
			emit(TWord, j, strings.ToUpper(s[i:j]))
		case c == '{':
			j := strings.IndexByte(s[i:], '}')
			if j < 0 {
				emit(TUnterminated, len(s), "")
			} else {
				emit(TPlaceholder, i+j+1, "")
			}
		case c == '$' && i+1 < len(s) && isDigit(s[i+1]):
			j := i + 1
			for j < len(s) && isDigit(s[j]) {
				j++
			}
			emit(TPlaceholder, j, "")
		case c == '?':
			emit(TPlaceholder, i+1, "")
		default:
			two := ""
			if i+1 < len(s) {
				two = s[i : i+2]
			}
			switch two {
			case "==", "!=", "<>", "<=", ">=", "||", "::":
				emit(TOp, i+2, "")
			default:
				if strings.IndexByte("()[],;.*+-/%=<>", c) >= 0 {
					emit(TOp, i+1, "")
				} else {
					emit(TBad, i+1, "")
				}
			}
		}
	}
	return out
}

func isHexDigit(c byte) bool {
	return isDigit(c) || 'a' <= c && c <= 'f' || 'A' <= c && c <= 'F'
}

func hexVal(c byte) byte {
	switch {
	case isDigit(c):
		return c - '0'
	case c >= 'a':
		return c - 'a' + 10
	default:
		return c - 'A' + 10
	}
}

// Problems lists lexical defects of an emitted statement: comments,
// unterminated tokens, bad bytes, unbalanced brackets, statement separators
// other than one final semicolon.
func Problems(toks []Tok) []string {
	var out []string
	var stack []byte
	semis := 0
	for i, t := range toks {
		switch t.Kind {
		case TComment:
			out = append(out, fmt.Sprintf("comment %q", t.Text))
		case TUnterminated:
			out = append(out, fmt.Sprintf("unterminated token starting at %d: %.40q", t.Start, t.Text))
		case TBad:
			out = append(out, fmt.Sprintf("malformed token %q", t.Text))
		case TOp:
			switch t.Text {
			case "(", "[":
				stack = append(stack, t.Text[0])
			case ")", "]":
				want := byte('(')
				if t.Text == "]" {
					want = '['
				}
				if len(stack) == 0 || stack[len(stack)-1] != want {
					out = append(out, fmt.Sprintf("unbalanced %q at %d", t.Text, t.Start))
				} else {
					stack = stack[:len(stack)-1]
				}
			case ";":
				semis++
				if i != len(toks)-1 {
					out = append(out, fmt.Sprintf("statement separator at %d is not the last token", t.Start))
				}
			}
		}
	}
	if len(stack) > 0 {
		out = append(out, fmt.Sprintf("%d unclosed brackets", len(stack)))
	}
	if semis != 1 {
		out = append(out, fmt.Sprintf("%d semicolons (want exactly one, at the end)", semis))
	}
	return out
}
