package sqlx

import (
	"fmt"
	"strings"
)

// ---- AST ----

type Expr interface{}

type IdPart struct {
	Name   string
	Quoted bool
}

// Ident is a possibly compound identifier a.b.c.
type Ident struct{ Parts []IdPart }

type LitKind int

const (
	LNum LitKind = iota
	LStr
	LNull
	LTrue
	LFalse
)

type Lit struct {
	Kind LitKind
	Text string // number spelling
	Str  string // decoded string value
}

type Param struct{ Text string }
type Unary struct {
	Op string // "-", "+", "NOT"
	X  Expr
}
type Binary struct {
	Op   string
	X, Y Expr
}
type IsNull struct {
	X   Expr
	Not bool
}
type InList struct {
	X    Expr
	Not  bool
	Vals []Expr
}
type Between struct {
	X, Lo, Hi Expr
	Not       bool
}
type Func struct {
	Name     string // as written
	Args     []Expr
	Star     bool // f(*)
	Distinct bool
	NoParens bool // CURRENT_TIMESTAMP
	Filter   Expr // FILTER (WHERE ...)
}
type When struct{ Cond, Val Expr }
type Case struct {
	Operand Expr
	Whens   []When
	Else    Expr
}
type Index struct{ X, I Expr }
type Cast struct {
	X    Expr
	Type string
}

type Item struct {
	Star     bool
	X        Expr
	Alias    string
	HasAlias bool
}

type Order struct {
	X          Expr
	Desc       bool
	HasDir     bool
	NullsFirst bool
	HasNulls   bool
}

type Source struct {
	Table    string // table / CTE name (decoded) when Sub == nil
	TableTok Tok
	Sub      *Select
	Alias    string
	HasAlias bool
}

type Join struct {
	Kind  string // "INNER", "LEFT"
	Right *Source
	On    Expr
}

type Select struct {
	Distinct bool
	Items    []Item
	From     *Source
	Join     *Join
	Where    Expr
	GroupBy  []Expr
	OrderBy  []Order
	Limit    Expr
}

type CTE struct {
	Name string
	Q    *Select
}

type Stmt struct {
	CTEs []CTE
	Q    *Select
}

// ---- parser ----

type parser struct {
	toks []Tok
	pos  int
}

type parseError struct{ msg string }

func (e *parseError) Error() string { return e.msg }

func (p *parser) fail(format string, args ...any) {
	at := "end of input"
	if p.pos < len(p.toks) {
		at = fmt.Sprintf("%q at offset %d", p.toks[p.pos].Text, p.toks[p.pos].Start)
	}
	panic(&parseError{fmt.Sprintf(format, args...) + " (at " + at + ")"})
}

func (p *parser) peek() Tok {
	if p.pos < len(p.toks) {
		return p.toks[p.pos]
	}
	return Tok{Kind: TBad, Text: ""}
}

func (p *parser) peekAt(k int) Tok {
	if p.pos+k < len(p.toks) {
		return p.toks[p.pos+k]
	}
	return Tok{Kind: TBad, Text: ""}
}

func (p *parser) isWord(w string) bool {
	t := p.peek()
	return t.Kind == TWord && t.Val == w
}

func (p *parser) isWordAt(k int, w string) bool {
	t := p.peekAt(k)
	return t.Kind == TWord && t.Val == w
}

func (p *parser) isOp(op string) bool {
	t := p.peek()
	return t.Kind == TOp && t.Text == op
}

func (p *parser) acceptWord(w string) bool {
	if p.isWord(w) {
		p.pos++
		return true
	}
	return false
}

func (p *parser) acceptOp(op string) bool {
	if p.isOp(op) {
		p.pos++
		return true
	}
	return false
}

func (p *parser) expectWord(w string) {
	if !p.acceptWord(w) {
		p.fail("expected %s", w)
	}
}

func (p *parser) expectOp(op string) {
	if !p.acceptOp(op) {
		p.fail("expected %q", op)
	}
}

// ParseStatement lexes and parses one complete statement `[WITH ...] select ;`.
// It returns an error if the text has lexical problems, does not parse, or has
// trailing tokens.
func ParseStatement(sql string, d Dialect) (st *Stmt, toks []Tok, err error) {
	toks = Lex(sql, d)
	if probs := Problems(toks); len(probs) > 0 {
		return nil, toks, fmt.Errorf("lexical problems: %s", strings.Join(probs, "; "))
	}
	defer func() {
		if r := recover(); r != nil {
			if pe, ok := r.(*parseError); ok {
				st, err = nil, pe
				return
			}
			panic(r)
		}
	}()
	p := &parser{toks: toks}
	st = &Stmt{}
	if p.acceptWord("WITH") {
		for {
			name := p.identName()
			p.expectWord("AS")
			p.expectOp("(")
			q := p.selectStmt()
			p.expectOp(")")
			st.CTEs = append(st.CTEs, CTE{Name: name, Q: q})
			if !p.acceptOp(",") {
				break
			}
		}
	}
	st.Q = p.selectStmt()
	p.expectOp(";")
	if p.pos != len(p.toks) {
		p.fail("trailing tokens after the statement")
	}
	return st, toks, nil
}

// ParseExpr parses a stand-alone expression (used by tests of the reader itself).
func ParseExpr(sql string, d Dialect) (e Expr, err error) {
	toks := Lex(sql, d)
	defer func() {
		if r := recover(); r != nil {
			if pe, ok := r.(*parseError); ok {
				e, err = nil, pe
				return
			}
			panic(r)
		}
	}()
	p := &parser{toks: toks}
	e = p.expr(0)
	if p.pos != len(p.toks) {
		p.fail("trailing tokens after the expression")
	}
	return e, nil
}

func (p *parser) identName() string {
	t := p.peek()
	switch t.Kind {
	case TQuotedIdent:
		p.pos++
		return t.Val
	case TWord:
		if reserved[t.Val] {
			p.fail("expected identifier, got keyword")
		}
		p.pos++
		return t.Text
	}
	p.fail("expected identifier")
	return ""
}

var reserved = map[string]bool{
	"SELECT": true, "FROM": true, "WHERE": true, "GROUP": true, "ORDER": true, "BY": true, "LIMIT": true, "AS": true, "ON": true,
	"JOIN": true, "LEFT": true, "INNER": true, "WITH": true, "AND": true, "OR": true, "NOT": true, "IS": true, "IN": true, "CASE": true,
	"WHEN": true, "THEN": true, "ELSE": true, "END": true, "DISTINCT": true, "ASC": true, "DESC": true, "NULLS": true, "BETWEEN": true,
	"LIKE": true, "ILIKE": true, "FILTER": true, "HAVING": true, "UNION": true, "OFFSET": true, "USING": true, "OUTER": true,
}

func (p *parser) selectStmt() *Select {
	p.expectWord("SELECT")
	s := &Select{}
	if p.acceptWord("DISTINCT") {
		s.Distinct = true
	}
	for {
		var it Item
		if p.acceptOp("*") {
			it.Star = true
		} else {
			it.X = p.expr(0)
			if p.acceptWord("AS") {
				it.Alias = p.identName()
				it.HasAlias = true
			}
		}
		s.Items = append(s.Items, it)
		if !p.acceptOp(",") {
			break
		}
	}
	p.expectWord("FROM")
	s.From = p.source()
	kind := ""
	switch {
	case p.isWord("LEFT"):
		p.pos++
		p.acceptWord("OUTER")
		p.expectWord("JOIN")
		kind = "LEFT"
	case p.isWord("INNER"):
		p.pos++
		p.expectWord("JOIN")
		kind = "INNER"
	case p.isWord("JOIN"):
		p.pos++
		kind = "INNER"
	}
	if kind != "" {
		j := &Join{Kind: kind}
		j.Right = p.source()
		p.expectWord("ON")
		j.On = p.expr(0)
		s.Join = j
	}
	if p.acceptWord("WHERE") {
		s.Where = p.expr(0)
	}
	if p.acceptWord("GROUP") {
		p.expectWord("BY")
		for {
			s.GroupBy = append(s.GroupBy, p.expr(0))
			if !p.acceptOp(",") {
				break
			}
		}
	}
	if p.acceptWord("ORDER") {
		p.expectWord("BY")
		for {
			o := Order{X: p.expr(0)}
			if p.acceptWord("ASC") {
				o.HasDir = true
			} else if p.acceptWord("DESC") {
				o.HasDir, o.Desc = true, true
			}
			if p.acceptWord("NULLS") {
				o.HasNulls = true
				if p.acceptWord("FIRST") {
					o.NullsFirst = true
				} else if !p.acceptWord("LAST") {
					p.fail("expected FIRST or LAST")
				}
			}
			s.OrderBy = append(s.OrderBy, o)
			if !p.acceptOp(",") {
				break
			}
		}
	}
	if p.acceptWord("LIMIT") {
		s.Limit = p.expr(0)
	}
	return s
}

func (p *parser) source() *Source {
	src := &Source{}
	if p.acceptOp("(") {
		src.Sub = p.selectStmt()
		p.expectOp(")")
	} else {
		src.TableTok = p.peek()
		src.Table = p.identName()
		if p.isOp(".") {
			p.fail("qualified table names are not expected")
		}
	}
	if p.acceptWord("AS") {
		src.Alias = p.identName()
		src.HasAlias = true
	}
	return src
}

// ClickHouse operator priorities (src/Parsers/ExpressionListParsers.cpp).
const (
	precOr      = 3
	precAnd     = 4
	precNot     = 5
	precIsNull  = 6
	precBetween = 7
	precCmp     = 9
	precConcat  = 10
	precAdd     = 11
	precMul     = 12
	precNeg     = 13
	precPostfix = 14
)

func binPrec(t Tok) (string, int) {
	switch t.Kind {
	case TWord:
		switch t.Val {
		case "OR":
			return "OR", precOr
		case "AND":
			return "AND", precAnd
		case "LIKE", "ILIKE":
			return t.Val, precCmp
		}
	case TOp:
		switch t.Text {
		case "=", "==", "!=", "<>", "<", "<=", ">", ">=":
			return t.Text, precCmp
		case "||":
			return "||", precConcat
		case "+", "-":
			return t.Text, precAdd
		case "*", "/", "%":
			return t.Text, precMul
		}
	}
	return "", -1
}

// expr parses an expression whose operators all bind at least as tightly as min.
func (p *parser) expr(min int) Expr {
	x := p.prefix()
	for {
		t := p.peek()
		// postfix [ ] . ::
		if t.Kind == TOp && t.Text == "[" && precPostfix >= min {
			p.pos++
			i := p.expr(0)
			p.expectOp("]")
			x = &Index{X: x, I: i}
			continue
		}
		if t.Kind == TOp && t.Text == "::" && precPostfix >= min {
			p.pos++
			ty := p.peek()
			if ty.Kind != TWord {
				p.fail("expected type name after ::")
			}
			p.pos++
			x = &Cast{X: x, Type: ty.Text}
			continue
		}
		// IS [NOT] NULL
		if t.Kind == TWord && t.Val == "IS" && precIsNull >= min {
			p.pos++
			not := p.acceptWord("NOT")
			p.expectWord("NULL")
			x = &IsNull{X: x, Not: not}
			continue
		}
		// [NOT] IN / BETWEEN / LIKE
		not := false
		save := p.pos
		if t.Kind == TWord && t.Val == "NOT" {
			n := p.peekAt(1)
			if n.Kind == TWord && (n.Val == "IN" || n.Val == "BETWEEN" || n.Val == "LIKE" || n.Val == "ILIKE") {
				p.pos++
				not = true
				t = p.peek()
			}
		}
		if t.Kind == TWord && t.Val == "IN" && precCmp >= min {
			p.pos++
			p.expectOp("(")
			in := &InList{X: x, Not: not}
			for {
				in.Vals = append(in.Vals, p.expr(0))
				if !p.acceptOp(",") {
					break
				}
			}
			p.expectOp(")")
			x = in
			continue
		}
		if t.Kind == TWord && t.Val == "BETWEEN" && precBetween >= min {
			p.pos++
			lo := p.expr(precBetween + 1)
			p.expectWord("AND")
			hi := p.expr(precBetween + 1)
			x = &Between{X: x, Lo: lo, Hi: hi, Not: not}
			continue
		}
		op, prec := binPrec(t)
		if prec < 0 || prec < min {
			p.pos = save
			return x
		}
		p.pos++
		y := p.expr(prec + 1) // all binary operators are left-associative
		if not {
			x = &Unary{Op: "NOT", X: &Binary{Op: op, X: x, Y: y}}
		} else {
			x = &Binary{Op: op, X: x, Y: y}
		}
	}
}

func (p *parser) prefix() Expr {
	t := p.peek()
	switch t.Kind {
	case TNumber:
		p.pos++
		return &Lit{Kind: LNum, Text: t.Text}
	case TString:
		p.pos++
		return &Lit{Kind: LStr, Str: t.Val}
	case TPlaceholder:
		p.pos++
		return &Param{Text: t.Text}
	case TQuotedIdent:
		return p.compoundIdent()
	case TOp:
		switch t.Text {
		case "(":
			p.pos++
			x := p.expr(0)
			p.expectOp(")")
			return x
		case "-", "+":
			p.pos++
			return &Unary{Op: t.Text, X: p.expr(precNeg)}
		}
	case TWord:
		switch t.Val {
		case "NOT":
			p.pos++
			return &Unary{Op: "NOT", X: p.expr(precNot)}
		case "NULL":
			p.pos++
			return &Lit{Kind: LNull}
		case "TRUE":
			p.pos++
			return &Lit{Kind: LTrue}
		case "FALSE":
			p.pos++
			return &Lit{Kind: LFalse}
		case "CASE":
			return p.caseExpr()
		case "CURRENT_TIMESTAMP":
			p.pos++
			if p.acceptOp("(") {
				p.expectOp(")")
			}
			return &Func{Name: t.Text, NoParens: true}
		}
		// Function names are passed through by name; ClickHouse does not reserve
		// keywords in call position, so any word directly followed by "(" is a call.
		if n := p.peekAt(1); n.Kind == TOp && n.Text == "(" && t.Val != "SELECT" {
			return p.call()
		}
		if reserved[t.Val] {
			p.fail("unexpected keyword in expression")
		}
		return p.compoundIdent()
	}
	p.fail("expected expression")
	return nil
}

func (p *parser) compoundIdent() Expr {
	id := &Ident{}
	for {
		t := p.peek()
		switch t.Kind {
		case TQuotedIdent:
			id.Parts = append(id.Parts, IdPart{Name: t.Val, Quoted: true})
		case TWord:
			if reserved[t.Val] {
				p.fail("keyword used as identifier")
			}
			id.Parts = append(id.Parts, IdPart{Name: t.Text})
		default:
			p.fail("expected identifier")
		}
		p.pos++
		if n := p.peek(); n.Kind == TOp && n.Text == "." {
			nn := p.peekAt(1)
			if nn.Kind == TQuotedIdent || nn.Kind == TWord {
				p.pos++
				continue
			}
		}
		return id
	}
}

func (p *parser) call() Expr {
	name := p.peek().Text
	p.pos += 2
	f := &Func{Name: name}
	if p.acceptOp("*") {
		f.Star = true
		p.expectOp(")")
	} else if !p.acceptOp(")") {
		if p.acceptWord("DISTINCT") {
			f.Distinct = true
		}
		for {
			f.Args = append(f.Args, p.expr(0))
			if !p.acceptOp(",") {
				break
			}
		}
		p.expectOp(")")
	}
	if p.isWord("FILTER") {
		p.pos++
		p.expectOp("(")
		p.expectWord("WHERE")
		f.Filter = p.expr(0)
		p.expectOp(")")
	}
	return f
}

func (p *parser) caseExpr() Expr {
	p.expectWord("CASE")
	c := &Case{}
	if !p.isWord("WHEN") {
		c.Operand = p.expr(0)
	}
	for p.acceptWord("WHEN") {
		cond := p.expr(0)
		p.expectWord("THEN")
		val := p.expr(0)
		c.Whens = append(c.Whens, When{cond, val})
	}
	if len(c.Whens) == 0 {
		p.fail("CASE without WHEN")
	}
	if p.acceptWord("ELSE") {
		c.Else = p.expr(0)
	}
	p.expectWord("END")
	return c
}

// Format renders an expression fully parenthesised (for messages and memo keys).
func Format(e Expr) string {
	switch e := e.(type) {
	case nil:
		return "<nil>"
	case *Ident:
		var parts []string
		for _, p := range e.Parts {
			if p.Quoted {
				parts = append(parts, fmt.Sprintf("%q", p.Name))
			} else {
				parts = append(parts, p.Name)
			}
		}
		return strings.Join(parts, ".")
	case *Lit:
		switch e.Kind {
		case LNum:
			return e.Text
		case LStr:
			return fmt.Sprintf("'%s'", e.Str)
		case LNull:
			return "NULL"
		case LTrue:
			return "TRUE"
		default:
			return "FALSE"
		}
	case *Param:
		return e.Text
	case *Unary:
		return "(" + e.Op + " " + Format(e.X) + ")"
	case *Binary:
		return "(" + Format(e.X) + " " + e.Op + " " + Format(e.Y) + ")"
	case *IsNull:
		if e.Not {
			return "(" + Format(e.X) + " IS NOT NULL)"
		}
		return "(" + Format(e.X) + " IS NULL)"
	case *InList:
		var v []string
		for _, x := range e.Vals {
			v = append(v, Format(x))
		}
		n := ""
		if e.Not {
			n = "NOT "
		}
		return "(" + Format(e.X) + " " + n + "IN [" + strings.Join(v, ", ") + "])"
	case *Between:
		return "(" + Format(e.X) + " BETWEEN " + Format(e.Lo) + " AND " + Format(e.Hi) + ")"
	case *Func:
		var v []string
		for _, x := range e.Args {
			v = append(v, Format(x))
		}
		s := e.Name + "(" + strings.Join(v, ", ") + ")"
		if e.Star {
			s = e.Name + "(*)"
		}
		if e.NoParens {
			s = e.Name
		}
		if e.Filter != nil {
			s += " FILTER(" + Format(e.Filter) + ")"
		}
		return s
	case *Case:
		s := "CASE"
		if e.Operand != nil {
			s += " " + Format(e.Operand)
		}
		for _, w := range e.Whens {
			s += " WHEN " + Format(w.Cond) + " THEN " + Format(w.Val)
		}
		if e.Else != nil {
			s += " ELSE " + Format(e.Else)
		}
		return s + " END"
	case *Index:
		return Format(e.X) + "[" + Format(e.I) + "]"
	case *Cast:
		return Format(e.X) + "::" + e.Type
	}
	return fmt.Sprintf("<%T>", e)
}
