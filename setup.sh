#!/bin/sh
# Builds the checker once so that later check runs hit a warm build cache. Offline.
export GOFLAGS=-mod=mod GOPROXY=off GOSUMDB=off GOTOOLCHAIN=local
cd "$(dirname "$0")/harness" || exit 1
cmp -s /repo/go.sum go.sum || cp /repo/go.sum go.sum
go build -o /dev/null ./cmd/chk || exit 1
go build -race -o /dev/null ./cmd/c14race || exit 1
(cd /repo && go build -o /dev/null ./cmd/pql) || exit 1
echo setup ok
