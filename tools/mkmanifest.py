#!/usr/bin/env python3
"""Generates /verif/MANIFEST.json from the table below and validates it."""
import json, sys, os

CHECKS = {
 # id: (category, technique, design_ref, text, note)
 "C01": ("exploration", "bounded-exhaustive enumeration of expression trees x parenthesisations x positions; emitted SQL re-parsed with ClickHouse priorities and evaluated over all row valuations against the PQL tree", "DESIGN.md §4 C01",
         "Every expression tree over 36 node kinds up to N internal nodes, in three parenthesisation modes, at every expression position, is compiled; the SQL expression found at the position is evaluated by an independent evaluator on every valuation of its columns over small domains (NULL included) and must equal the PQL tree's value (and fail where the PQL tree is ill-typed).",
         "shared primitive semantics (DESIGN.md appendix A); SQL read with ClickHouse operator priorities; unknown functions interpreted injectively"),
 "C02": ("model_checking", "explicit-state exploration of all operator sequences to depth d on the real compiler; emitted SQL executed on every small database and compared with a left-to-right pipeline interpreter", "DESIGN.md §4 C02",
         "Every operator sequence up to depth d over 35 schema-aware operator variants (all eleven operators) is compiled by the real compiler; the SQL is run by an independent list-semantics evaluator on every database of up to m rows and must equal the result of interpreting the pipeline operator by operator: columns, rows, and order wherever a sort determines it. Covers every (splitter state x next operator) transition several times over.",
         "list semantics of the SQL evaluator (order-preserving subqueries, stable ORDER BY); shared scalar primitives"),
 "C03": ("model_checking", "explicit-state exploration of join programs (prefix x kind x right pipeline x condition x suffix) on the real compiler; SQL executed on every pair of small tables against reference join semantics", "DESIGN.md §4 C03",
         "All combinations of 7 left prefixes, 4 kinds, 8 right-hand pipelines (nested joins included), 7 condition forms and 8 suffixes (second joins included) - quick: at most three non-default parts - are compiled and executed on every pair of small tables with NULL keys, duplicates and empty tables; results must equal the reference join semantics.",
         "join result columns = left then right; ambiguous-name programs skipped and counted"),
 "C04": ("exploration", "bounded-exhaustive enumeration of literal/name contents at every position kind, compared token-by-token under two independent SQL lexers", "DESIGN.md §4 C04",
         "32 skeletons (one per position where a string, name or number can occur) x every content over a 19-symbol adversarial alphabet up to length n (and a quote/backslash sub-alphabet to a larger length) x every PQL spelling: the emitted SQL must have the same token kinds and identical non-hole tokens as the skeleton with a neutral content, and the hole tokens must decode (ClickHouse rules; standard rules when no backslash) to the PQL value.",
         "sqlx lexers implement standard and ClickHouse quoting rules; ClickHouse is the target dialect for decoding"),
 "C05": ("exploration", "bounded-exhaustive enumeration of accepted programs; output parsed by an independent SQL statement reader", "DESIGN.md §4 C05",
         "Every successful Compile over all lexeme sequences up to L tokens (three alphabets), all corruptions of the grammar corpus, the corpus in several layouts and expression trees up to N nodes is lexed under both rule sets and parsed as `[WITH ...] select ;`; table references, CTE order, name uniqueness and CTE use are checked.",
         "sqlx reads a superset of what pql emits; tables named in the source = identifier token values"),
 "C06": ("exploration", "bounded-exhaustive enumeration of let sequences x value shapes x parameter maps x use sites against a reference interpreter with lexical scoping", "DESIGN.md §4 C06",
         "Every let sequence up to k bindings (chains, shadowing, names colliding with columns/constants/parameters) x 13 value shapes x 5 parameter maps x 35 use sites is compiled; the SQL at the use site is evaluated over all valuations of columns and placeholders and compared with lexical-scope substitution on the generator's tree; text laws cover unused bindings, lets after the query and all non-use sites.",
         "parameter snippets are atomic placeholders; primitive semantics shared with C01"),
 "C07": ("exploration", "bounded-exhaustive enumeration of grammar derivations x layouts against the generator's prescribed tree", "DESIGN.md §4 C07",
         "Every expression tree over 24 node kinds up to N internal nodes (minimal, full and redundant parentheses), every operator production with every combination of optional parts, all two-operator pipelines over representatives, lets and empty statements, each in uniform, one-gap-at-a-time and (short programs) all separator assignments over 6 separators, is parsed by the real parser and compared field by field with the tree the grammar prescribes.",
         "generator's grammar (DESIGN.md §1) is the documented grammar; printer validated by the reference tokenizer"),
 "C08": ("exploration", "bounded-exhaustive enumeration of token sequences and corruptions; accepted sources must re-print to their own token sequence", "DESIGN.md §4 C08",
         "All lexeme sequences up to L tokens over three lexeme alphabets (one under four fixed prefixes) and every single-token corruption (thorough: pairs) of the grammar corpus; whenever Parse succeeds an independent tree printer must reproduce Scan(source) minus the three permitted absences.",
         "tree printer reads exported fields only; keyword synonyms accepted as alternatives"),
 "C10": ("exploration", "bounded-exhaustive enumeration of derivations x layouts with spans computed by the generator's printer; reflection over failed parses", "DESIGN.md §4 C10",
         "Same derivations and layouts as C07 (multi-line, tabs, CRLF, comments, non-ASCII strings): every recorded span field and every node's Span() must equal the byte extent recorded by the printer.",
         "printer's span bookkeeping; documented two-token keyword spans (sort by, nulls first)"),
 "C11": ("exploration", "bounded-exhaustive enumeration of programs x prune points against a reflection-based reference traversal", "DESIGN.md §4 C11",
         "Every corpus statement and every expression tree up to N internal nodes is walked without pruning and with every visited node (thorough: pairs) as prune point; visit set, order and pruning are compared with a traversal derived by reflection from exported fields.",
         "the two documented exceptions (CallExpr.Func, JoinOperator.Flavor)"),
 "C12": ("exploration", "bounded-exhaustive enumeration of byte strings, token sequences, corruptions and parametric nesting families under a watchdog", "DESIGN.md §4 C12",
         "Scan, SplitStatements, Parse, Walk and Compile (three option values) are run on every enumerated input; panics are recovered and reported, a case over 10 s is a hang, worker death is attributed by the parent process.",
         "10 s threshold; families up to 2 KiB quick / 8 KiB thorough"),
 "C13": ("exploration", "bounded-exhaustive planting of one rule violation per program at every slot x nesting context, plus either/or contract on all token sequences", "DESIGN.md §4 C13",
         "15 expression slots x 13 nesting wrappers x every documented rule (arity 0..4 of each built-in, $left/$right outside on, open names in let values, join kinds, row counts, statement counts): the planted program must fail, its twin must compile; SQL-xor-error on every enumerated source.",
         "rule list of the property statement"),
 "C16": ("model_checking", "explicit-state exploration of input-line histories x channels x read faults on the real binary against a model of the statement loop", "DESIGN.md §4 C16",
         "Every history of up to k lines over a 22-line alphabet (with and without final newline) is fed to the real pql binary on stdin; shorter histories also through one file, two files split at every line boundary, a file followed by stdin, -o and CRLF; read faults (70 000-byte line at every position, directory, missing file) are injected. Output, exit status and diagnostics are compared with a model that calls the library per statement.",
         "model trusts pql.Compile per statement; exit status unspecified for empty statements and a trailing unterminated let"),
 "C09": ("exploration", "bounded-exhaustive input enumeration against a reference tokenizer (explicit-state exploration of the scanner)", "DESIGN.md §4 C09",
         "Every byte string over a 36-symbol adversarial alphabet (and number/string/identifier sub-alphabets) up to a stated length is scanned by the real lexer and compared token by token with an independently written longest-match tokenizer; partition, re-scan and accessor laws are checked on each. Complete below the bound, silent beyond it.",
         "reference tokenizer harness/reftok encodes the token definitions of the property statement; alphabet has one representative per character class"),
 "C14": ("model_checking", "stateless model checking of the real code under a controlled cooperative scheduler (auto-instrumented scheduling points, iterative preemption bounding, co-enabled-conflict race oracle) + exhaustive sequential call histories", "DESIGN.md §3.7, §4 C14",
         "Eleven scenarios of 2-3 threads x 1-3 calls (cold start included) are explored over all interleavings of instrumented shared-memory and synchronisation points: preemption bounds 0, 1, 2 (thorough: up to 4) and then without a bound, pruned by state key; every call must return its sequential fresh-state result, results already returned must not change afterwards, no two enabled threads may have conflicting pending accesses, no deadlock, parameter maps unchanged; all call histories to depth 3 (4) over 27 call kinds; fresh-process conformance of the in-process state reset; supplementary free-running pass under the Go race detector.",
         "sequentially consistent interleavings at instrumented points; instrumentation generated at check time from the tree (package-level variables with field paths, map accesses, sync and sync/atomic via shims)"),
 "C15": ("exploration", "bounded-exhaustive input enumeration with cross-laws between SplitStatements, Scan, Parse and a reference tokenizer", "DESIGN.md §4 C15",
         "Every byte string over a 17-symbol alphabet up to a stated length plus semicolons inserted at every byte offset of a program corpus; join/round-trip, piece count, piece-in-isolation = statement-in-context and Parse correspondence are checked on every one.",
         "reference tokenizer for the independent semicolon count; corpus programs chosen to contain every token kind"),
}
# additions since the first version (families added after the seeded-change rounds); appended to the descriptions
ADDED = {
 "C01": " Also: wide families (every operator chain / list / nest with k = 1..129 operands, one-hot variants), comparisons between string-valued shapes, a termination sweep over nesting-wrapper pairs.",
 "C02": " Also: a deep-and-narrow sweep, wide families (k columns / terms / keys / operators), every spelling of sort terms and two-keyword operators, programs with coinciding names. A where variant whose outermost operator is `or`.",
 "C03": " Also: joins with k conditions, sequences of k joins, right-hand sides nested k deep, coinciding names, named results read again.",
 "C04": " Also: skeletons in CTE position and as a join's right-hand side, after / before k other literals or names, contents from the compiler's own vocabulary, let-mediated uses, pairs of name spellings; the reference must carry the content exactly as often as the program uses it.",
 "C05": " Also: wide families, join programs, binding use sites, generated-looking user names (one known finding).",
 "C06": " Also: list-element and parenthesised-condition sites, wide let chains / parameter maps, case-variant names. A query compiled before and after a failing call that bound names gives the same result.",
 "C07": " Also: scale programs, coinciding-name programs, keyword-like names in any case. The program directly after failing parses of its own parts and after padded copies of itself (violations that need earlier inputs are replayed with them in a fresh process).",
 "C08": " Also: scale programs, long string bodies with one special byte. Corruptions also joined with empty comment lines.",
 "C09": " Also: boundary literals, unusual runes in 26 lexical contexts, every byte and every rune after a backslash, float literals with every ordinary exponent, long string bodies, runs of error tokens, sequences of tricky lexemes.",
 "C10": " Also: four tree-independent span laws (token boundaries, one-token fields, statement extent, operators tile the pipeline). Leading text (byte order mark, non-ASCII blanks, controls, white space) moves every span by its length; the program directly after failing parses of its parts and padded copies of itself (violations that need earlier inputs are replayed with them in a fresh process).",
 "C11": " Also: re-entrant walks at every node; scale programs; runs on one worker. Expression trees at 20 expression positions; a complete walk after a pruned walk of a fresh tree, for every prune point. A complete walk after a walk aborted by a recovered panic.",
 "C12": " Also: odd parameter snippets, odd tokens in diagnostics, implicit-name layouts, 27 nesting wrappers x 17 innermost operands. One rune of every Unicode class a scanner may consult, in 24 token shapes x 15 contexts. Flat families with one diagnostic per unit; 12 s per call on 2 KiB inputs in the quick tier.",
 "C13": " Also: reassigned output names, idiom wrappers, references to later bindings, large arities, hexadecimal row counts. String literals with every escape at the start, middle and end of the body compile.",
 "C14": " Also: all schedules with at most 1 (2) departures from the default; all ordered pairs of calls over the grammar corpus; repeat determinism; goroutines started by the code under test are run as controlled threads (go, buffered channels, close, select-default, WaitGroup). Scenario S12: string literals that need escaping, compiled by two goroutines. nil / zero value / empty map give identical results over the pair alphabet.",
 "C15": " Also: padded corpus, many-error sources, statement order and removed separators; a statement that parses alone must be reported even when others fail.",
 "C16": " Also: bulk scripts, long lines, padding before a let, every wide family as a session.",
}
NOT_APPLICABLE = {}

def main():
    checks = []
    for pid in sorted(CHECKS):
        cat, tech, ref, text, note = CHECKS[pid]
        text += ADDED.get(pid, "")
        checks.append({
            "property_id": pid,
            "quick_cmd": f"./check {pid} quick",
            "thorough_cmd": f"./check {pid} thorough",
            "evidence_file": f"/verif/evidence/{pid}.json",
            "replay_cmd_template": f"./check {pid} --replay {{path}}",
            "engine": "chk",
            "level_claimed": {"category": cat, "text": text, "design_ref": ref},
            "level_note": note,
            "technique": tech,
        })
    props = [json.loads(l)["id"] for l in open("/verif/properties.jsonl")]
    na = []
    for pid in props:
        if pid not in CHECKS:
            na.append({"property_id": pid, "reason": NOT_APPLICABLE.get(pid, "check not built yet in this session; planned (see DESIGN.md)")})
    m = {
        "version": 1,
        "setup_cmd": "./setup.sh",
        "hooks": {
            "guard": "verif",
            "enable": "no hooks are committed to /repo; C14 instrumentation is generated at check time and injected with go build -overlay (files carry the build tag verif)",
            "baseline_off_cmd": "cd /repo && GOFLAGS=-mod=mod GOPROXY=off GOSUMDB=off go test -vet=off -count=1 ./...",
            "source_commits": [],
            "add_only": True,
        },
        "engines": [
            {"name": "chk", "path": "/verif/harness/cmd/chk", "serves_properties": sorted(CHECKS),
             "kind_free_text": "hand-written bounded-exhaustive explorer (Go): enumerates inputs / derivations / operator sequences / histories / schedules, runs the real pql code on each and compares with reference models"},
        ],
        "checks": checks,
        "not_applicable": na,
        "notes": "All checks rebuild from /repo's working tree (go build with replace => /repo). Exit 0 = held, 1 = VIOLATION line, 2 = harness error (CHECK-ERROR). Genuine defects found are listed in /verif/known_findings.json: 15 fixed (fix: commits in /repo), 1 known (C05, an `as` name from the generated __subquery namespace; the check prints KNOWN-FINDING and exits 0). Seeded changes used to test the checks: /verif/seeded (272) and /verif/mutants; tools/seeds-regress.sh and mutants/run re-run them.",
    }
    json.dump(m, open("/verif/MANIFEST.json", "w"), indent=1)
    open("/verif/MANIFEST.json", "a").write("\n")
    try:
        import jsonschema
        jsonschema.validate(m, json.load(open("/root/.vp/MANIFEST.schema.json")))
        print("MANIFEST.json valid;", len(checks), "checks,", len(na), "not claimed")
    except ImportError:
        print("jsonschema not available; not validated")

if __name__ == "__main__":
    main()
