#!/bin/sh
# usage: mkmutant.sh <name> <file relative to /repo> <sed expression>
# writes /verif/mutants/<name>.patch
name=$1; file=$2; expr=$3
d=$(mktemp -d /var/tmp/verif-mk.XXXXXX); trap 'rm -rf $d' EXIT
mkdir -p $d/a/$(dirname $file) $d/b/$(dirname $file)
cp /repo/$file $d/a/$file; cp /repo/$file $d/b/$file
sed -i "$expr" $d/b/$file
if cmp -s $d/a/$file $d/b/$file; then echo "mutant $name: sed changed nothing"; exit 1; fi
(cd $d && diff -u a/$file b/$file) > /verif/mutants/$name.patch
echo "wrote mutants/$name.patch"
