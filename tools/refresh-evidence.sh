#!/bin/sh
# Runs every quick check on the unchanged tree and validates the evidence files it wrote.
cd /verif
rc=0
for c in C01 C02 C03 C04 C05 C06 C07 C08 C09 C10 C11 C12 C13 C14 C15 C16; do
  ./check $c quick > /tmp/refresh-$c.log 2>&1; e=$?
  tail -1 /tmp/refresh-$c.log
  [ $e = 0 ] || { echo "  $c exit $e"; rc=1; }
done
python3-vt - <<'PY'
import json, jsonschema, glob, sys
schema=json.load(open('/root/.vp/EVIDENCE.schema.json'))
bad=0
for f in sorted(glob.glob('/verif/evidence/*.json')):
    e=json.load(open(f))
    try:
        jsonschema.validate(e, schema)
        v=e.get('violations'); caps=e['coverage'].get('caps_hit')
        print(f, 'valid', e['tier'], 'violations', v, 'samples', len(e['coverage'].get('samples',[])), 'caps', caps)
        if v or e['tier']!='quick' or not e['coverage'].get('samples'): bad=1
    except Exception as ex:
        print(f, 'INVALID', str(ex)[:200]); bad=1
sys.exit(bad)
PY
[ $? = 0 ] || rc=1
exit $rc
