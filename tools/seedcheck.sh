#!/bin/sh
# usage: seedcheck.sh <seed change dir> <worktree> <ID> [more IDs...]
# 1. confirms in the scratch worktree that the patch applies, the repository's suite passes with it,
#    and the demonstration fails with it and passes without it;
# 2. runs the given checks (quick) against the patch through a build overlay (/repo untouched).
export GOFLAGS=-mod=mod GOPROXY=off GOSUMDB=off GOTOOLCHAIN=local
seed=$(readlink -f "$1"); wt=$2; shift 2
echo "### $seed"
git -C $wt checkout -q -- . && git -C $wt clean -fdq
git -C $wt apply --check $seed/patch.diff || { echo "RESULT patch-does-not-apply"; exit 1; }
demo=""; for f in $seed/demo_test.go $seed/demo.sh $seed/demo/main.go; do [ -f $f ] && demo=$f; done
rundemo() {
  case "$demo" in
    *_test.go)
      pkg=$(grep -m1 '^package ' $demo | awk '{print $2}')
      case $pkg in pql|pql_test) dir=$wt;; parser|parser_test) dir=$wt/parser;; main|main_test) dir=$wt/cmd/pql;; *) dir=$wt;; esac
      cp $demo $dir/zz_seed_demo_test.go
      (cd $dir && timeout 300 go test -vet=off -count=1 -run 'Demo|Seed|C[0-9][0-9]' . >/tmp/seed-demo.out 2>&1); rc=$?
      rm -f $dir/zz_seed_demo_test.go; return $rc;;
    *.sh) WT=$wt timeout 300 sh $demo >/tmp/seed-demo.out 2>&1; return $?;;
    */main.go) (cd $wt && mkdir -p zz_seed_demo && cp $demo zz_seed_demo/main.go && timeout 300 go run ./zz_seed_demo >/tmp/seed-demo.out 2>&1); rc=$?; rm -rf $wt/zz_seed_demo; return $rc;;
  esac
  return 99
}
rundemo; without=$?
git -C $wt apply $seed/patch.diff
(cd $wt && timeout 600 go test -vet=off -count=1 ./... >/tmp/seed-suite.out 2>&1); suite=$?
rundemo; with=$?
tail -5 /tmp/seed-demo.out | cut -c1-200
git -C $wt checkout -q -- . && git -C $wt clean -fdq
echo "RESULT suite_with_patch=$suite demo_without_patch=$without demo_with_patch=$with"
cd /verif
for id in "$@"; do
  out=$(tools/withpatch.sh $seed/patch.diff ./check $id quick 2>&1); rc=$?
  echo "CHECK $id exit=$rc $(echo "$out" | grep -m1 -A3 '^VIOLATION' | sed -n '2,4p' | tr '\n' ' ' | cut -c1-300)"
done
