#!/bin/sh
# Re-runs, for every seeded change under /verif/seeded, the checks listed in its
# meta.json (detected_by) against the patch (build overlay; /repo untouched) and
# reports whether each still detects it. Also runs every listed check on the clean tree.
cd "$(dirname "$0")/.." || exit 2
fail=0
for d in seeded/*/; do
  id=$(basename $d)
  for chk in $(python3 -c "import json,sys; print(' '.join(json.load(open('$d/meta.json'))['detected_by']))"); do
    tools/withpatch.sh $d/patch.diff ./check $chk quick >/tmp/seedreg.out 2>&1; rc=$?
    if [ $rc = 1 ]; then echo "DETECTED $id by $chk"; else echo "MISSED   $id by $chk (exit $rc)"; fail=1; fi
  done
done
exit $fail
