#!/bin/sh
# usage: withpatch.sh <patch.diff> <command...>
# Applies a unified diff (paths relative to /repo, -p1) to scratch copies of the
# touched files, writes a go build overlay for them and runs the command with
# VERIF_OVERLAY set. /repo is never modified.
patch_file=$(readlink -f "$1"); shift
scratch=$(mktemp -d /var/tmp/verif-mut.XXXXXX) || exit 2
trap 'rm -rf "$scratch"' EXIT INT TERM
files=$(grep '^+++ ' "$patch_file" | sed -e 's/^+++ [ab]\///' -e 's/\t.*//')
printf '{"Replace":{' > "$scratch/overlay.json"
first=1
for f in $files; do
  mkdir -p "$scratch/src/$(dirname "$f")"
  [ -f "/repo/$f" ] && cp "/repo/$f" "$scratch/src/$f"
  [ $first = 1 ] || printf ',' >> "$scratch/overlay.json"
  first=0
  printf '"/repo/%s":"%s/src/%s"' "$f" "$scratch" "$f" >> "$scratch/overlay.json"
done
printf '}}\n' >> "$scratch/overlay.json"
(cd "$scratch/src" && patch -s -p1 < "$patch_file") || { echo "patch failed"; exit 2; }
# overlay replacement files must not look like package members of their directory
for f in $files; do mv "$scratch/src/$f" "$scratch/src/$f.overlay"; done
sed -i "s|\(/src/[^\"]*\)\"|\1.overlay\"|g" "$scratch/overlay.json"
VERIF_EVIDENCE_DIR="$scratch/evidence" VERIF_OVERLAY="$scratch/overlay.json" "$@"
